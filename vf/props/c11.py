"""C11 — schemas built from SDL contain exactly what the SDL declares."""
import ast
import re

from .. import boolx, shapes, nodeshape, excflow
from ..model import AnalysisError, own_nodes, norm_stmt

BUILDER = "py_gql.sdl.ast_type_builder"
SFA = "py_gql.sdl.schema_from_ast"
DEF_KINDS = ["ObjectTypeDefinition", "InterfaceTypeDefinition", "EnumTypeDefinition", "UnionTypeDefinition", "ScalarTypeDefinition", "InputObjectTypeDefinition"]
TYPE_KINDS = ["ObjectType", "InterfaceType", "EnumType", "UnionType", "ScalarType", "InputObjectType"]
INPUT_KINDS = {"Scalar", "Enum", "InputObject"}
OUTPUT_KINDS = {"Scalar", "Enum", "Object", "Interface", "Union"}
# which kinds a reference slot may name (type-system well-formedness; hand-written, small)
REF_KINDS = {
    ("ObjectTypeDefinition", "interfaces"): {"Interface"}, ("ObjectTypeExtension", "interfaces"): {"Interface"},
    ("UnionTypeDefinition", "types"): {"Object"}, ("UnionTypeExtension", "types"): {"Object"},
    ("InputValueDefinition", "type"): INPUT_KINDS, ("FieldDefinition", "type"): OUTPUT_KINDS,
    ("ObjectType", "interfaces"): {"Interface"}, ("UnionType", "types"): {"Object"},
    ("Argument", "type"): INPUT_KINDS, ("InputField", "type"): INPUT_KINDS, ("Field", "type"): OUTPUT_KINDS,
}
T1_TEXT = ("a list built from <schema>.types.values() that flows into Schema(types=...) is filtered only by the justified "
           "predicates (specified scalars / introspection types, which the constructor re-adds): no declared type is dropped")
ALLOWED_FILTERS = ("SPECIFIED_SCALAR_TYPES", "INTROPSPECTION_TYPES", "is_introspection_type", "startswith('__')", "_DEFAULT_TYPES_MAP", "_PROTECTED_TYPES")


def kind_of(name):
    for k in ("InputObject", "Object", "Interface", "Enum", "Union", "Scalar"):
        if name.startswith(k) or ("_" + k.lower()) in name.lower().replace("input_object", "inputobject") or name.lower().replace("_", "").find(k.lower()) >= 0:
            return k
    return None


def dispatch_classes(fi, var, prog=None):
    """class name -> the self-method that receives ``var`` when it is an instance of that class.  Decided by path
    enumeration (vf/dispatch.py) over the classes the function tests ``var`` against, so the shape of the chain
    (elif, nested else/if, negated tests with swapped branches) does not matter."""
    out = {}
    # the dispatched variable is found by use (the name most often class-tested in if-tests), the given name is only a hint
    from collections import Counter
    cnt = Counter()
    tested = {}
    for n in own_nodes(fi.node):
        if isinstance(n, (ast.If, ast.IfExp)):
            for x in ast.walk(n.test):
                if isinstance(x, ast.Call) and isinstance(x.func, ast.Name) and x.func.id == "isinstance" and len(x.args) == 2 and isinstance(x.args[0], ast.Name):
                    cnt[x.args[0].id] += 1
                    tested.setdefault(x.args[0].id, set()).update(shapes.class_names_in(x.args[1]))
    if cnt and cnt.get(var, 0) == 0:
        var = cnt.most_common(1)[0][0]
    if prog is None:
        prog = _PROG[0]
    from .. import dispatch, boolx
    hier = _HIER.get(id(prog))
    if hier is None:
        hier = _HIER[id(prog)] = dispatch.Hierarchy(prog)
    for k in sorted(tested.get(var, ())):
        if k not in hier.anc:
            continue
        try:
            exits = dispatch.executions(hier, fi, var, k)
        except AnalysisError:
            raise
        must = None
        order = []
        for kind, st, env in exits:
            if kind == "raise":
                continue
            names = []
            for c in env.get(boolx.CALLS, ()):
                if isinstance(c.func, ast.Attribute) and isinstance(c.func.value, ast.Name) and c.func.value.id == "self" \
                        and any(isinstance(a, ast.Name) and a.id == var for a in c.args):
                    names.append(c.func.attr)
            if not names:
                continue      # an execution that hands the value to no method (cache hit, early return)
            order = order or names
            must = set(names) if must is None else must & set(names)
        if must is None:
            if all(kind == "raise" for kind, _s, _e in exits):
                continue      # every execution raises for this class: not handled
            out[k] = None
            continue
        pick = [nm for nm in order if nm in must]
        out[k] = pick[0] if pick else None
    return out


_PROG = [None]
_HIER = {}


def iteration_filters(root):
    """(iterable text, [filter condition texts], node) for every comprehension under ``root`` and every for-loop whose
    body keeps (stores / appends / yields) the element under conditions: `if T: continue` guards and the tests enclosing
    the keep statement, each reported as its own condition (a `continue` guard is reported as `not (T)`)."""
    out = []
    for x in ast.walk(root):
        if isinstance(x, (ast.ListComp, ast.GeneratorExp, ast.DictComp, ast.SetComp)):
            for g in x.generators:
                out.append((ast.unparse(g.iter), [" ".join(ast.unparse(i).split()) for i in g.ifs], x))
        elif isinstance(x, ast.For):
            conds = []

            def scan(stmts, guards):
                for st in stmts:
                    if isinstance(st, ast.If):
                        t = " ".join(ast.unparse(st.test).split())
                        if len(st.body) == 1 and isinstance(st.body[0], ast.Continue) and not st.orelse:
                            conds.append("not (%s)" % t)
                            continue
                        scan(st.body, guards + [t])
                        scan(st.orelse, guards + ["not (%s)" % t])
                    elif isinstance(st, (ast.Assign, ast.Expr)) and guards:
                        keeps = (isinstance(st, ast.Assign) and isinstance(st.targets[0], ast.Subscript)) or (
                            isinstance(st, ast.Expr) and isinstance(st.value, (ast.Call, ast.Yield)))
                        if keeps:
                            for gd in guards:
                                if gd not in conds:
                                    conds.append(gd)
            scan(x.body, [])
            out.append((ast.unparse(x.iter), conds, x))
    return out


def _only_allowed(cond):
    import re
    parts = [p for p in re.split(r"\band\b|\bor\b", cond) if p.strip(" ()not")]
    return all(any(a in part for a in ALLOWED_FILTERS) for part in parts)


def registry_conservation(prog, run, r):
    sites = 0
    for f in prog.all_funcs():
        if not f.module.name.startswith("py_gql"):
            continue
        calls = [n for n in own_nodes(f.node) if isinstance(n, ast.Call) and isinstance(n.func, ast.Name) and n.func.id == "Schema"]
        for c in calls:
            tk = [k.value for k in c.keywords if k.arg == "types"]
            if not tk:
                continue
            # expressions feeding types=
            exprs = [tk[0]]
            if isinstance(tk[0], ast.Name):
                exprs = [n.value for n in own_nodes(f.node) if isinstance(n, ast.Assign) and ast.unparse(n.targets[0]) == tk[0].id]
            found = []
            for e in exprs:
                found.extend(iteration_filters(e))
            if isinstance(tk[0], ast.Name):
                # the list may also be filled by a loop with append
                for lp in [n for n in own_nodes(f.node) if isinstance(n, ast.For)]:
                    if any(isinstance(x, ast.Call) and isinstance(x.func, ast.Attribute) and x.func.attr in ("append", "add")
                           and isinstance(x.func.value, ast.Name) and x.func.value.id == tk[0].id for x in ast.walk(lp)):
                        found.extend(t for t in iteration_filters(lp) if t[2] is lp)
            for it, conds, comp in found:
                if True:
                    if True:
                        if not it.endswith(".types.values()"):
                            continue
                        sites += 1
                        r.instance("%s: Schema(types=...) from `%s` filtered by %s" % (f.qualname, it, conds))
                        for cond in conds:
                            if not _only_allowed(cond):
                                run.report(r, "%s:%s:registry-filter(%s)" % (f.module.name, f.qualname, cond), f.where(comp),
                                           "the types of the existing schema are filtered by `%s` before being handed to the new "
                                           "Schema: a type that is neither selected nor reachable from the roots (e.g. an object type "
                                           "only implementing an interface) disappears" % cond)
    # clone/replace path
    sch = prog.get_class("py_gql.schema.schema", "Schema")
    clone = sch.find_method("clone")
    for it, conds, node in iteration_filters(clone.node):
        if it.endswith(".types.values()"):
            sites += 1
            r.instance("Schema.clone copies types from `%s` filtered by %s" % (it, conds))
            for cond in conds:
                if not _only_allowed(cond):
                    run.report(r, "py_gql.schema.schema:Schema.clone:registry-filter(%s)" % cond, clone.where(node), "clone drops types by `%s`" % cond)
    return sites


def check(prog, run):
    check_duplicate_sets_grow(prog, run, "K2")
    check_every_extension_checked(prog, run, "K1")
    check_single_root_declaration(prog, run, "O2")
    _PROG[0] = prog
    b = prog.get_class(BUILDER, "ASTTypeBuilder")

    # ---- D1 dispatch exhaustiveness over the six kinds
    r = run.rule("D1", "every dispatch over type kinds (build_type over definition nodes; extend_type, SchemaVisitor.on_schema, "
                       "ASTSchemaPrinter.print_type, SchemaValidator.__call__ over schema types) covers all six kinds", 29)
    sites = [
        (b.find_method("build_type"), "type_def", DEF_KINDS, True),
        (b.find_method("extend_type"), "type_", TYPE_KINDS, True),
        (prog.get_func("py_gql.schema.schema_visitor", "SchemaVisitor.on_schema"), "original_type", TYPE_KINDS, True),
        (prog.get_func("py_gql.sdl.ast_schema_printer", "ASTSchemaPrinter.print_type"), "type_", TYPE_KINDS, True),
    ]
    for f, var, kinds, _ in sites:
        shapes.require(f is not None, "C11.D1: dispatch function not found")
        run.looked_at(f)
        d = dispatch_classes(f, var)
        for k in kinds:
            r.instance("%s: %s -> %s" % (f.qualname, k, d.get(k)))
            if k not in d:
                run.report(r, "%s:%s:unhandled(%s)" % (f.module.name, f.qualname, k), f.where(), "%s has no branch for %s" % (f.qualname, k))
    sv = prog.get_func("py_gql.schema.validation", "SchemaValidator.__call__")
    run.looked_at(sv)
    seen = set()
    for n in ast.walk(sv.node):
        if isinstance(n, ast.Call) and isinstance(n.func, ast.Name) and n.func.id == "isinstance" and len(n.args) == 2:
            seen.update(shapes.class_names_in(n.args[1]))
    for k in ("ObjectType", "InterfaceType", "UnionType", "EnumType", "InputObjectType"):
        r.instance("SchemaValidator.__call__ handles %s: %s" % (k, k in seen))
        if k not in seen:
            run.report(r, "py_gql.schema.validation:SchemaValidator.__call__:unhandled(%s)" % k, sv.where(), "schema validation never inspects %s members" % k)

    # ---- D2 builders consume every content slot
    r = run.rule("D2", "each _build_X reads (directly or through helpers receiving the node) every content slot of the definition "
                       "node class it builds from, so nothing declared in the SDL is dropped", 30)
    ncs = nodeshape.node_classes(prog)
    bt = dispatch_classes(b.find_method("build_type"), "type_def")
    pairs = [(k, v) for k, v in bt.items() if v]
    pairs += [("FieldDefinition", "_build_field"), ("EnumValueDefinition", "_build_enum_value"), ("InputValueDefinition", "_build_argument"),
              ("InputValueDefinition", "_build_input_field"), ("DirectiveDefinition", "build_directive")]
    for cname, meth in pairs:
        m = b.find_method(meth)
        if m is None or cname not in ncs:
            run.report(r, "%s:ASTTypeBuilder:missing-builder(%s)" % (BUILDER, meth), b.module.relpath, "builder %s for %s not found" % (meth, cname))
            continue
        run.looked_at(m)
        reads = shapes.attr_reads(prog, m, m.params[1], depth=3)
        # `nodes=[type_def]` / `node=node` keeps the whole definition (directives are consumed later from it)
        keeps_node = shapes.passes_as_keyword(prog, m, m.params[1], ("node", "nodes"))
        for slot in ncs[cname].content_slots:
            if slot == "directives" and keeps_node:
                r.instance("%s: %s.directives kept through node=/nodes=" % (meth, cname))
                continue
            r.instance("%s reads %s.%s" % (meth, cname, slot))
            if slot not in reads:
                run.report(r, "%s:ASTTypeBuilder.%s:unread(%s.%s)" % (BUILDER, meth, cname, slot), m.where(),
                           "%s never reads %s.%s: that part of the declaration is missing from the built schema" % (meth, cname, slot))

    # ---- C1 eager cycles through memoised builders
    r = run.rule("C1", "no kind of type can eagerly (not through a lambda/partial/lazy thunk) re-enter the memoised builder for a "
                       "kind that may contain itself before the cache is written (self- or mutually recursive definitions "
                       "would recurse forever)", 8)
    for entry, disp_var, label in (("build_type", "type_def", "build"), ("extend_type", "type_", "extend")):
        ent = b.find_method(entry)
        disp = {k: v for k, v in dispatch_classes(ent, disp_var).items() if v}
        kind_builders = {}
        for cls_name, meth in disp.items():
            k = kind_of(cls_name)
            if k:
                kind_builders[k] = meth
        # memo write after the builder call?
        writes = [n for n in own_nodes(ent.node) if isinstance(n, ast.Assign) and isinstance(n.targets[0], ast.Subscript) and "cache" in ast.unparse(n.targets[0].value)]
        calls_b = [n for n in own_nodes(ent.node) if isinstance(n, ast.Call) and isinstance(n.func, ast.Attribute) and n.func.attr in disp.values()]
        late_memo = bool(writes) and bool(calls_b) and min(w.lineno for w in writes) > max(c.lineno for c in calls_b)
        r.instance("%s: memo written after the kind builder returns: %s" % (entry, late_memo))
        edges = {}
        for k, meth in kind_builders.items():
            edges[k] = eager_reference_kinds(prog, b, b.find_method(meth), entry, set())
            r.instance("%s %s eagerly references kinds %s" % (label, k, sorted(edges[k])))
        if late_memo:
            # cycles in the kind graph
            for k in sorted(edges):
                seen, stack = set(), [(k, [k])]
                while stack:
                    cur, path = stack.pop()
                    for nxt in sorted(edges.get(cur, ())):
                        if nxt == k:
                            cyc = path + [k]
                            if min(cyc) == k:  # report once per cycle
                                run.report(r, "%s:ASTTypeBuilder.%s:eager-cycle(%s)" % (BUILDER, entry, ">".join(cyc)), ent.where(),
                                           "%s of a %s type eagerly %ss the referenced %s type(s) before the cache entry exists (%s): a "
                                           "self- or mutually recursive definition such as `input A { a: A }` never terminates "
                                           "(RecursionError)" % (label, k, label, cyc[-2] if len(cyc) > 1 else k, " -> ".join(cyc)))
                        elif nxt not in seen:
                            seen.add(nxt)
                            stack.append((nxt, path + [nxt]))

    # ---- W1 wrapper structure preserved
    r = run.rule("W1", "every function that maps (possibly wrapped) types to types rebuilds wrappers structurally: "
                       "ListType -> ListType(f(inner)), NonNullType -> NonNullType(f(inner)); a peel-and-rewrap loop must "
                       "re-apply the collected wrappers innermost-first (reversed)", 4)
    sites = [(b.find_method("build_type"), "build"), (b.find_method("extend_type"), "extend"),
             (prog.get_func("py_gql.schema.fix_type_references", "_HealSchemaVisitor._healed"), "heal"),
             (prog.get_func("py_gql.schema.schema", "Schema.get_type_from_literal"), "resolve literal")]
    for f, label in sites:
        run.looked_at(f)
        param = f.params[1]
        structural = {}
        # path form: what the function returns when its argument is exactly a ListType / NonNullType
        from .. import dispatch
        from ..canon import Canon
        hier = _HIER.get(id(prog)) or _HIER.setdefault(id(prog), dispatch.Hierarchy(prog))
        fcn = Canon(f.node)
        tested = {nm for n in own_nodes(f.node) if isinstance(n, (ast.If, ast.IfExp, ast.While)) for names, _ in shapes.class_tests(n.test, param) for nm in names}
        for nm in ("ListType", "NonNullType"):
            oks, swaps = [], []
            from .. import pathfeas
            try:
                _evw, wexits = boolx.walk_under(f.node, pathfeas.decide_with_locals(hier, param, nm))
            except ValueError as e:
                raise AnalysisError("C11.W1: %s: %s" % (f.qualname, e))
            for kind, st, env in wexits:
                if kind != "return" or st.value is None:
                    if kind != "raise":
                        oks.append(False)
                    continue
                atoms = {a: v for a, v in env.items() if a not in boolx.META}
                v = boolx.path_expand(env.get(boolx.STMTS, ()), st, st.value, atoms)
                if isinstance(v, ast.Subscript) and "cache" in ast.unparse(v.value):
                    continue      # cache hit: whatever an earlier identical call built
                if isinstance(v, ast.Constant) and v.value is None:
                    continue      # the function may give up on the type (healing drops unknown types)
                txt = " ".join(ast.unparse(v).split())
                other = "NonNullType" if nm == "ListType" else "ListType"
                built = txt.startswith(nm + "(") or txt.startswith("cast(") and (nm + "(") in txt
                oks.append(built and ("%s(" % f.name) in txt and ("%s.type" % param) in txt)
                swaps.append(txt.startswith(other + "("))
            if oks:
                structural[nm] = (all(oks), any(swaps))
        peel = [n for n in own_nodes(f.node) if isinstance(n, ast.While) and "ListType" in ast.unparse(n.test) and "NonNullType" in ast.unparse(n.test)]
        r.instance("%s (%s): structural branches %s, peel loops %d" % (f.qualname, label, {k: v[0] for k, v in structural.items()}, len(peel)))
        if peel:
            # wrappers collected while peeling (outermost first); the re-application loop must run in reverse
            collected = None
            for n in ast.walk(peel[0]):
                if isinstance(n, ast.Call) and isinstance(n.func, ast.Attribute) and n.func.attr in ("append", "insert"):
                    collected = (ast.unparse(n.func.value), n.func.attr, n)
            if collected is None:
                raise AnalysisError("C11.W1: %s peels wrappers in an unrecognised way" % f.qualname)
            name, how, _ = collected
            front_insert = how == "insert" and ast.unparse(collected[2].args[0]) == "0"
            loops = [n for n in own_nodes(f.node) if isinstance(n, ast.For) and name in ast.unparse(n.iter)]
            for lp in loops:
                it = ast.unparse(lp.iter)
                rev = it.startswith("reversed(") or it.endswith("[::-1]")
                if rev == front_insert:
                    run.report(r, "%s:%s:wrappers-reapplied-in-peel-order" % (f.module.name, f.qualname), f.where(lp),
                               "%s collects the wrappers outermost-first and re-applies them with `for ... in %s` in the same order: "
                               "the outermost wrapper ends up innermost ([T]! becomes [T!], [T!] becomes [T]!)" % (f.qualname, it))
        else:
            for nm in ("ListType", "NonNullType"):
                ok, swapped = structural.get(nm, (False, False))
                if not ok:
                    run.report(r, "%s:%s:wrapper(%s)" % (f.module.name, f.qualname, nm), f.where(),
                               "%s does not rebuild %s as %s(%s(<inner>))%s" % (f.qualname, nm, nm, f.name, " (it builds the other wrapper)" if swapped else ""))

    # ---- T1 registry conservation
    rt = run.rule("T1", T1_TEXT, 2)
    registry_conservation(prog, run, rt)

    check_null_default(prog, run, "N1")

    # ---- Y1 typed attribute reads in the SDL builder
    from .. import typedrule
    typedrule.run_rule(prog, run, "Y1", "sdl/**", "building a schema must fail only with the library's schema/SDL errors, never with "
                       "AttributeError", ["py_gql.sdl"], 40)

    # ---- G1 per-target accumulation keeps every member
    rg = run.rule("G1", "definitions and extensions are accumulated per target name without losing any: containers keyed by name are "
                        "filled by append/extend (or setdefault(...).append) in document order; itertools.groupby — which only groups "
                        "CONSECUTIVE items — is used only over an iterable sorted by the same key, and no dict is built from its groups "
                        "(later runs of a key would overwrite earlier ones)", 1)
    for f in prog.all_funcs():
        if not f.module.name.startswith("py_gql.sdl"):
            continue
        for n in own_nodes(f.node):
            if isinstance(n, ast.Call) and ((isinstance(n.func, ast.Attribute) and n.func.attr == "groupby") or (isinstance(n.func, ast.Name) and n.func.id == "groupby")):
                src = n.args[0] if n.args else None
                key = [k.value for k in n.keywords if k.arg == "key"] or (n.args[1:2])
                sorted_same = isinstance(src, ast.Call) and isinstance(src.func, ast.Name) and src.func.id == "sorted" and key and \
                    [ast.unparse(k.value) for k in src.keywords if k.arg == "key"] == [ast.unparse(key[0])]
                rg.instance("%s: groupby over `%s` (sorted by the same key: %s)" % (f.qualname, ast.unparse(src) if src is not None else "?", bool(sorted_same)))
                if not sorted_same:
                    run.report(rg, "%s:%s:groupby-unsorted(%s)" % (f.module.name, f.qualname, ast.unparse(src) if src is not None else "?"), f.where(n),
                               "itertools.groupby groups consecutive items only and its input `%s` is not sorted by the grouping key: extend "
                               "blocks of one target separated by a block of another form several groups, and all but one are lost"
                               % (ast.unparse(src) if src is not None else "?"))
            # append-accumulation instances: d[key].append(x) / d.setdefault(key, []).append(x)
            if isinstance(n, ast.Call) and isinstance(n.func, ast.Attribute) and n.func.attr in ("append", "extend") and \
                    (isinstance(n.func.value, ast.Subscript) or (isinstance(n.func.value, ast.Call) and isinstance(n.func.value.func, ast.Attribute)
                                                                  and n.func.value.func.attr == "setdefault")):
                rg.instance("%s: %s" % (f.qualname, norm_stmt(n, 60)))

    # ---- O1 root operation types: declared by `schema { ... }` when there is one, inferred by name only when there is none
    ro = run.rule("O1", "build_schema_ignoring_extensions: the tests that infer a root operation type from a conventional type name "
                        "(\"Query\" / \"Mutation\" / \"Subscription\") are evaluated on the executions without a schema definition and on "
                        "none of the executions with one - a document that says `schema { query: Root }` has exactly the roots it lists, "
                        "whatever other types are called", 2)
    bsi = prog.get_func("py_gql.sdl.schema_from_ast", "build_schema_ignoring_extensions")
    run.looked_at(bsi)
    CONV = {"Query", "Mutation", "Subscription", "query", "mutation", "subscription"}
    infer = [n for n in own_nodes(bsi.node) if isinstance(n, ast.Compare)
             and any(isinstance(x, ast.Constant) and x.value in CONV for x in ast.walk(n))
             and any(isinstance(x, ast.Attribute) and x.attr == "name" for x in ast.walk(n))]
    shapes.require(bool(infer), "C11.O1: no name-based inference of root types found in build_schema_ignoring_extensions")
    marks = {id(x) for n in infer for x in ast.walk(n) if isinstance(x, ast.Attribute)}
    for present in (False, True):
        def decide(t, present=present):
            tt = t.replace(" ", "")
            if re.match(r"^\w*schema_def\w*isNone$", tt):
                return not present
            if re.match(r"^\w*schema_def\w*$", tt):
                return present
            return None
        try:
            ev, exits = boolx.walk_under(bsi.node, decide)
        except ValueError as e:
            raise AnalysisError("C11.O1: %s" % e)
        hit = sorted({getattr(n, "lineno", 0) for i, (n, _env) in ev.items() if i in marks})
        ro.instance("schema definition %s: name-based inference evaluated at lines %s" % ("present" if present else "absent", hit))
        if present and hit:
            run.report(ro, "py_gql.sdl.schema_from_ast:build_schema_ignoring_extensions:implicit-roots-with-schema-definition", bsi.where(infer[0]),
                       "root operation types are inferred from the type names Query / Mutation / Subscription although the document has a "
                       "schema definition: `schema { query: Root } type Mutation { ... }` gets a mutation root it does not declare")
        if not present and not hit:
            run.report(ro, "py_gql.sdl.schema_from_ast:build_schema_ignoring_extensions:no-implicit-roots", bsi.where(),
                       "without a schema definition the conventional names are never consulted")

    # ---- U1 every iteration variable is used (merging loops over extension blocks)
    from .. import itervars
    itervars.check(prog, run, "U1", ["py_gql.sdl"], 40,
                   "members contributed by all but one extension block are lost or repeated")

    # ---- R1 the extend pass rebuilds every non-specified element
    rr = run.rule("R1", "ASTTypeBuilder.extend_directive / extend_type: the only path that hands back the element it was given is the one for "
                        "specified (built-in) directives / types; on every other path the result is rebuilt (constructor or _extend_* "
                        "helper), because extend_schema rebuilds every named type: a kept element would still reference the old type "
                        "objects and the schema is then rejected with `Duplicate type`", 2)
    for mname in ("extend_directive", "extend_type"):
        m = b.find_method(mname)
        if m is None:
            raise AnalysisError("C11.R1: ASTTypeBuilder.%s not found" % mname)
        run.looked_at(m)
        ps = [x for x in m.params if x != prog.self_name(m)]
        try:
            _ev, exits = boolx.walk_under(m.node, lambda t: None)
        except ValueError as e:
            raise AnalysisError("C11.R1: %s" % e)
        rets = [(st, env) for k, st, env in exits if k == "return"]
        rr.instance("%s: %d returning paths" % (mname, len(rets)))
        for st, env in rets:
            if isinstance(st.value, ast.Name) and ps and st.value.id == ps[0]:
                atoms = {k: v for k, v in env.items() if k not in boolx.META}
                allowed = any(v is True and any(w in k for w in ("SPECIFIED", "INTROPSPECTION", "INTROSPECTION", "_PROTECTED", "is_introspection", "_DEFAULT_TYPES_MAP")) for k, v in atoms.items()) \
                    or any(v is True and "WrappingType" in k or (v is True and "ListType" in k) or (v is True and "NonNullType" in k) for k, v in atoms.items())
                if not allowed:
                    cond = ", ".join("%s=%s" % kv for kv in sorted(atoms.items()))
                    run.report(rr, "%s:ASTTypeBuilder.%s:returns-source-element" % (BUILDER, mname), m.where(st),
                               "%s returns the element it was given (when %s) although it is not a specified one: it keeps pointing at the "
                               "type objects of the schema being extended" % (mname, cond or "always"))

    # ---- X1 only library errors
    r = run.rule("X1", "may-raise (explicit raises through resolved calls) of build_schema / extend_schema contains only "
                       "library errors (GraphQLError family); no exception object is constructed without being raised", 2)
    mr = excflow.MayRaise(prog)
    u = mr.u
    # any library error class (GraphQLError family: syntax, SDL, schema, located value errors) is accepted;
    # builtin exceptions (ValueError, TypeError, KeyError, ...) are "unrelated exceptions"
    ok_roots = ("GraphQLError",)
    defensive = {
        ("ASTTypeBuilder.build_type", "TypeError"): "final else of the definition-kind dispatch (D1 checks exhaustiveness)",
        ("ASTTypeBuilder.extend_type", "TypeError"): "final else of the type-kind dispatch (D1 checks exhaustiveness)",
        ("value_from_ast", "TypeError"): "final raise for a type that is not an input type; defaults are only built for input values",
        ("Schema.get_type_from_literal", "TypeError"): "non-Type node: parser-built literals only",
        ("NonNullType.__init__", "ValueError"): "NonNull(NonNull): not expressible in the grammar",
        ("SchemaVisitor.on_schema", "TypeError"): "final else of the type-kind dispatch (D1 checks exhaustiveness)",
        ("classdispatch", "TypeError"): "registry miss: registries are exhaustive (C18.V1)",
        ("_document_ast", "TypeError"): "argument of the wrong Python type (neither text nor Document): a caller programming error, not a property of the SDL document",
        ("Directive.__init__", "ValueError"): "unknown directive location: the parser already rejects locations outside DIRECTIVE_LOCATIONS (parse_directive_location)",
        ("Schema.get_possible_types", "TypeError"): "callers test isinstance(x, GraphQLAbstractType) first",
    }
    for q in ("build_schema", "extend_schema"):
        f = prog.get_func(SFA, q)
        run.looked_at(f)
        res = mr.of(f)
        r.instance("%s may raise %s" % (q, sorted(res)))
        for exc, wit in sorted(res.items()):
            if any(u.is_subclass(exc, root) for root in ok_roots):
                continue
            src_fn = None
            for w in reversed(wit):
                if " calls " in w:
                    src_fn = w.split(" calls ")[-1]
                    break
            src_fn = src_fn or q
            if (src_fn, exc) in defensive:
                continue
            run.report(r, "%s:%s:escapes(%s<-%s)" % (SFA, q, exc, src_fn), f.where(),
                       "%s raised in %s can escape %s instead of a schema/SDL error: %s" % (exc, src_fn, q, " -> ".join(wit[:6])), {"witness": wit})
    for m in (prog.module(SFA), prog.module(BUILDER), prog.module("py_gql.sdl.schema_directives")):
        for f in [x for x in prog.all_funcs() if x.module is m]:
            for n in own_nodes(f.node):
                if isinstance(n, ast.Expr) and isinstance(n.value, ast.Call):
                    fn = n.value.func
                    nm = fn.attr if isinstance(fn, ast.Attribute) else (fn.id if isinstance(fn, ast.Name) else None)
                    if nm and u.is_exc(nm):
                        r.instance("%s: bare exception construction `%s`" % (f.qualname, norm_stmt(n, 60)))
                        run.report(r, "%s:%s:exception-not-raised(%s)" % (m.name, f.qualname, nm), f.where(n),
                                   "`%s` constructs %s without raising it: the invalid input falls through (returns None)" % (norm_stmt(n, 70), nm))


    # ---- L1 rebuilt elements take their members from the declared list, not from a name-keyed view
    from . import c14
    r = run.rule("L1", "every site that rebuilds a schema element from an existing one (C14.C1's copy-constructor sites) enumerates the "
                       "source's members through its declared list (fields, arguments, values, types, interfaces), never through a "
                       "name-keyed view (`*_map`, a dict-returning property): a map holds one entry per name, so a duplicated member "
                       "— which schema validation must report — silently disappears when an extension rebuilds the element", 8)
    tm = prog.module("py_gql.schema.types")
    map_like = set()
    for c in prog.all_classes():
        if c.module is not tm:
            continue
        for name, m in c.methods.items():
            if not any(ast.unparse(d).split(".")[-1] in ("property", "cached_property") for d in m.node.decorator_list):
                continue
            rets = [x.value for x in own_nodes(m.node) if isinstance(x, ast.Return) and x.value is not None]
            if name.endswith("_map") or any(isinstance(v, (ast.DictComp, ast.Dict)) or (isinstance(v, ast.Call) and isinstance(v.func, ast.Name)
                                                                                          and v.func.id in ("dict", "OrderedDict")) for v in rets):
                map_like.add(name)
    shapes.require(bool(map_like), "C11.L1: no name-keyed view found in schema/types.py")
    for f, call, ci, src, supplied, params in c14.rebuild_sites(prog):
        r.instance("%s: %s(...) rebuilt from `%s`" % (f.qualname, ci.name, src))
        for a in list(call.args) + [k.value for k in call.keywords]:
            for x in ast.walk(a):
                if isinstance(x, ast.Attribute) and isinstance(x.value, ast.Name) and x.value.id == src and x.attr in map_like:
                    # a lookup by one name (`src.field_map[name]`, `.get(name)`) is not an enumeration
                    par = getattr(x, "_parent", None)
                    if isinstance(par, ast.Subscript) or (isinstance(par, ast.Attribute) and par.attr == "get"):
                        continue
                    run.report(r, "%s:%s:members-from-map(%s.%s)" % (f.module.name, f.qualname, ci.name, x.attr), f.where(x),
                               "%s rebuilds a %s from `%s.%s`: members declared twice under one name collapse into one, so the "
                               "duplicate is never seen by schema validation" % (f.qualname, ci.name, src, x.attr))


def eager_reference_kinds(prog, cls, m, entry, seen, depth=0):
    """Kinds whose builder `entry` is (transitively, through same-class helpers) called eagerly from method m."""
    if m is None or m.key in seen or depth > 6:
        return set()
    seen = seen | {m.key}
    out = set()
    params = {a.arg: (ast.unparse(a.annotation).split(".")[-1].strip("'\"") if a.annotation is not None else None) for a in m.node.args.args}
    comp_src = {}
    for n in ast.walk(m.node):
        if isinstance(n, ast.comprehension) and isinstance(n.target, ast.Name) and isinstance(n.iter, ast.Attribute) and isinstance(n.iter.value, ast.Name):
            comp_src[n.target.id] = (n.iter.value.id, n.iter.attr)
        if isinstance(n, ast.For) and isinstance(n.target, ast.Name) and isinstance(n.iter, ast.Attribute) and isinstance(n.iter.value, ast.Name):
            comp_src[n.target.id] = (n.iter.value.id, n.iter.attr)

    def lazy_ctx(node):
        cur = node
        while getattr(cur, "_parent", None) is not None and cur is not m.node:
            par = cur._parent
            if isinstance(par, ast.Lambda):
                return True
            if isinstance(par, (ast.FunctionDef, ast.AsyncFunctionDef)) and par is not m.node:
                return True
            cur = par
        return False

    def slot_of(expr):
        """(class name, slot) for `x.slot` where x is an annotated parameter, or a loop variable over `p.slot`."""
        if isinstance(expr, ast.Attribute) and isinstance(expr.value, ast.Name):
            v = expr.value.id
            if params.get(v):
                return params[v], expr.attr
            if v in comp_src:
                # element of p.members: its class is the member class; approximate through REF table keys by attr
                pv, pslot = comp_src[v]
                member = {"fields": {"InputObjectType": "InputField", "ObjectType": "Field", "InterfaceType": "Field"}, "arguments": "Argument"}.get(pslot)
                if isinstance(member, dict):
                    member = member.get(params.get(pv))
                if member:
                    return member, expr.attr
        if isinstance(expr, ast.Name) and expr.id in comp_src:
            pv, pslot = comp_src[expr.id]
            if params.get(pv):
                return params[pv], pslot
        return None
    for n in ast.walk(m.node):
        if not isinstance(n, ast.Call) or lazy_ctx(n):
            continue
        f = n.func
        if isinstance(f, ast.Attribute) and isinstance(f.value, ast.Name) and f.value.id == "self":
            if f.attr == entry and n.args:
                a0 = n.args[0]
                # extend_type(self.build_type(x)) -> look at x
                while isinstance(a0, ast.Call) and a0.args:
                    a0 = a0.args[0]
                s = slot_of(a0)
                if s and s in REF_KINDS:
                    out |= REF_KINDS[s]
            elif f.attr != entry:
                callee = cls.find_method(f.attr)
                if callee is not None and callee is not m:
                    out |= eager_reference_kinds(prog, cls, callee, entry, seen, depth + 1)
    return out


def check_single_root_declaration(prog, run, rule_id):
    """A root operation is declared at most once, by the schema definition and all its extensions together."""
    import re as _re
    from .. import boolx as _bx
    MOD = "py_gql.sdl.schema_from_ast"
    r = run.rule(rule_id, "sdl/schema_from_ast.py, every loop over the `operation_types` of a schema definition / extension that records "
                          "`M[operation] = <type>`: on the executions where M already holds that operation the iteration raises and "
                          "stores nothing, on the others it stores - the occupancy test is made against the very map being filled, so "
                          "`schema { query: A query: B }`, two extensions naming the same root, or an extension re-declaring an "
                          "existing root are refused instead of the last declaration silently winning", 4)
    mod = prog.module(MOD)
    n_loops = 0
    for f in [x for x in prog.all_funcs() if x.module is mod]:
        for loop in own_nodes(f.node):
            if not (isinstance(loop, ast.For) and isinstance(loop.iter, ast.Attribute) and loop.iter.attr == "operation_types"):
                continue
            stores = [s for st in loop.body for s in ast.walk(st) if isinstance(s, ast.Assign) and isinstance(s.targets[0], ast.Subscript)
                      and isinstance(s.targets[0].value, ast.Name)]
            if not stores:
                continue
            run.looked_at(f)
            n_loops += 1
            M = stores[0].targets[0].value.id
            kexpr = stores[0].targets[0].slice
            keys = {ast.unparse(kexpr)}
            if isinstance(kexpr, ast.Name):
                for st in loop.body:
                    for s in ast.walk(st):
                        if isinstance(s, ast.Assign) and len(s.targets) == 1 and isinstance(s.targets[0], ast.Name) and s.targets[0].id == kexpr.id:
                            keys.add(ast.unparse(s.value))
            K = "(?:%s)" % "|".join(_re.escape(k) for k in sorted(keys))
            pats = [(_re.compile(r"^%s in %s$" % (K, M)), True), (_re.compile(r"^%s not in %s$" % (K, M)), False),
                    (_re.compile(r"^%s\.get\(%s(, None)?\) is not None$" % (M, K)), True), (_re.compile(r"^%s\.get\(%s(, None)?\) is None$" % (M, K)), False),
                    (_re.compile(r"^%s\.get\(%s(, None)?\)$" % (M, K)), True),
                    (_re.compile(r"^%s\[%s\] is not None$" % (M, K)), True), (_re.compile(r"^%s\[%s\] is None$" % (M, K)), False),
                    (_re.compile(r"^%s\[%s\]$" % (M, K)), True)]
            body = _bx.body_function(loop.body)
            for occupied in (True, False):
                def decide(t, occupied=occupied):
                    for p, pos in pats:
                        if p.match(t):
                            return occupied if pos else not occupied
                    return None
                try:
                    _ev, exits = _bx.walk_under(body, decide)
                except ValueError as e:
                    raise AnalysisError("C11.%s: %s" % (rule_id, e))
                outcomes = set()
                for kind, st, env in exits:
                    stored = any(isinstance(s, ast.Assign) and isinstance(s.targets[0], ast.Subscript) and isinstance(s.targets[0].value, ast.Name)
                                 and s.targets[0].value.id == M for s in env.get(_bx.STMTS, ()))
                    outcomes.add("raise" if kind == "raise" and not stored else ("store" if stored else "skip"))
                want = {"raise"} if occupied else {"store"}
                r.instance("%s: loop over %s into `%s`, operation %s -> %s" % (f.qualname, ast.unparse(loop.iter), M, "already declared" if occupied else "new", sorted(outcomes)))
                if outcomes != want:
                    run.report(r, "%s:%s:root-declared-twice(%s)" % (MOD, f.qualname, M), f.where(loop),
                               "in the loop over `%s`, an operation that `%s` %s leads to %s (expected %s): %s" % (
                                   ast.unparse(loop.iter), M, "already holds" if occupied else "does not hold yet", sorted(outcomes), sorted(want),
                                   "a second declaration of the same root replaces the first without an error" if occupied else
                                   "a legitimate declaration is not recorded"))
    if n_loops < 2:
        raise AnalysisError("C11.%s: the loops recording root operation types were not found (%d)" % (rule_id, n_loops))


def check_every_extension_checked(prog, run, rule_id):
    """Every extension collected for a target has the kind the target asks for."""
    r = run.rule(rule_id, "ASTTypeBuilder._collect_extensions: the class test against the expected extension kind (raising ExtensionError "
                          "otherwise) is made on the variable of a loop over the target's whole extension list, and what the function "
                          "returns is that list or a list appended to in that loop - a test on one element (`extensions[0]`) lets "
                          "`extend type Foo {..}  extend interface Foo {..}` through to code that assumes the kind", 1)
    b = prog.get_class("py_gql.sdl.ast_type_builder", "ASTTypeBuilder")
    f = b.find_method("_collect_extensions")
    if f is None:
        raise AnalysisError("C11.%s: ASTTypeBuilder._collect_extensions not found" % rule_id)
    run.looked_at(f)
    kind_param = f.params[-1]
    tests = [n for n in own_nodes(f.node) if isinstance(n, ast.Call) and isinstance(n.func, ast.Name) and n.func.id == "isinstance" and len(n.args) == 2
             and isinstance(n.args[1], ast.Name) and n.args[1].id == kind_param]
    if not tests:
        run.report(r, "py_gql.sdl.ast_type_builder:ASTTypeBuilder._collect_extensions:no-kind-test", f.where(),
                   "_collect_extensions no longer tests the extensions against the expected kind")
        return
    for t in tests:
        subj = t.args[0]
        loop = None
        cur = getattr(t, "_parent", None)
        while cur is not None and cur is not f.node:
            if isinstance(cur, ast.For) and isinstance(subj, ast.Name) and isinstance(cur.target, ast.Name) and cur.target.id == subj.id:
                loop = cur
                break
            cur = getattr(cur, "_parent", None)
        whole = loop is not None and not any(isinstance(x, ast.Subscript) for x in ast.walk(loop.iter))
        r.instance("kind test on `%s`: %s" % (ast.unparse(subj), "variable of a loop over `%s`" % ast.unparse(loop.iter)[:50] if loop is not None else "not a loop variable"))
        if not whole:
            run.report(r, "py_gql.sdl.ast_type_builder:ASTTypeBuilder._collect_extensions:kind-tested-on-one-element", f.where(t),
                       "the expected extension kind is tested on `%s`, not on every element of the list that is returned: a later "
                       "extension of another kind is handed to the caller" % ast.unparse(subj))


def check_duplicate_sets_grow(prog, run, rule_id):
    """What an extension adds is itself protected against being added twice."""
    r = run.rule(rule_id, "sdl/ast_type_builder.py, every `_extend_*` method: a membership test that guards `raise ExtensionError` for a "
                          "duplicate member (enum value, field, interface, union member, input field) is made against a local collection "
                          "that the same loop also adds the accepted member to - a test against the unextended type's own index misses a "
                          "member that two extension blocks (or one block twice) add, and the duplicate surfaces later as another "
                          "exception or as a silently doubled member", 4)
    b = prog.get_class("py_gql.sdl.ast_type_builder", "ASTTypeBuilder")
    n_sites = 0
    for name, m in sorted(b.methods.items()):
        if not name.startswith("_extend") or isinstance(m.node, ast.Lambda):
            continue
        for loop in own_nodes(m.node):
            if not isinstance(loop, ast.For):
                continue
            for iff in ast.walk(loop):
                if not isinstance(iff, ast.If):
                    continue
                raises = any(isinstance(x, ast.Raise) and x.exc is not None and "ExtensionError" in ast.unparse(x.exc) for st in iff.body + iff.orelse for x in ast.walk(st))
                if not raises:
                    continue
                for cmp_ in ast.walk(iff.test):
                    if isinstance(cmp_, ast.Compare) and len(cmp_.ops) == 1 and isinstance(cmp_.ops[0], (ast.In, ast.NotIn)):
                        S = cmp_.comparators[0]
                        run.looked_at(m)
                        n_sites += 1
                        stxt = " ".join(ast.unparse(S).split())
                        grows = isinstance(S, ast.Name) and any(
                            (isinstance(x, ast.Call) and isinstance(x.func, ast.Attribute) and x.func.attr in ("add", "append", "update", "extend")
                             and isinstance(x.func.value, ast.Name) and x.func.value.id == S.id)
                            or (isinstance(x, ast.Subscript) and isinstance(x.ctx, ast.Store) and isinstance(x.value, ast.Name) and x.value.id == S.id)
                            for x in ast.walk(m.node))
                        r.instance("%s: duplicate test against `%s` (grows with the accepted members: %s)" % (name, stxt, grows))
                        if not grows:
                            run.report(r, "py_gql.sdl.ast_type_builder:ASTTypeBuilder.%s:duplicate-test-against-fixed-collection(%s)" % (name, stxt), m.where(cmp_),
                                       "%s tests `%s` for a duplicate but never adds the accepted member to `%s`: the same new member added "
                                       "twice by extensions is not refused with ExtensionError" % (name, " ".join(ast.unparse(cmp_).split()), stxt))
    if n_sites < 4:
        raise AnalysisError("C11.%s: fewer than four duplicate tests found in the _extend_* methods (%d)" % (rule_id, n_sites))



def check_null_default(prog, run, rule_id="N1", prefix="py_gql.sdl", floor=4):
    # ---- N1 a declared `null` default is a default
    rn = run.rule(rule_id, "wherever the SDL builder stores a default value (kwargs['default_value'] = ... or default_value=...), the "
                        "decision that a default is present is taken on the AST slot (`<node>.default_value is not None`) or the "
                        "stored value is the sentinel-carrying `_default_value` of an existing element; never on the coerced "
                        "Python value, for which None means the declared default `null` (modules %s.*; a rebuilt schema element may "
                        "also ask the element's own `has_default_value`)" % prefix, floor)
    for f in prog.all_funcs():
        if not f.module.name.startswith(prefix):
            continue
        astparams = {a.arg for a in f.node.args.args if a.annotation is not None and "_ast." in ast.unparse(a.annotation)}
        for n in own_nodes(f.node):
            stores = []
            if isinstance(n, ast.Assign) and isinstance(n.targets[0], ast.Subscript) and isinstance(n.targets[0].slice, ast.Constant) \
                    and n.targets[0].slice.value == "default_value":
                stores.append((n, n.value))
            if isinstance(n, ast.Call):
                for k in n.keywords:
                    if k.arg == "default_value":
                        stores.append((n, k.value))
            for site, val in stores:
                run.looked_at(f)
                guards = []
                cur = site
                while getattr(cur, "_parent", None) is not None and cur is not f.node:
                    par = cur._parent
                    if isinstance(par, (ast.If, ast.IfExp)) and cur is not par.test:
                        guards.append(par.test)
                    cur = par
                if isinstance(val, ast.IfExp):
                    guards.append(val.test)
                rn.instance("%s: default_value <- %s under %s" % (f.qualname, norm_stmt(val)[:60], [norm_stmt(g) for g in guards]))
                carried = isinstance(val, ast.Attribute) and val.attr == "_default_value"
                if carried:
                    continue
                bad = []
                # single-assignment locals bound to a plain attribute chain are aliases of that chain
                alias = {}
                for x in own_nodes(f.node):
                    if isinstance(x, ast.Assign) and len(x.targets) == 1 and isinstance(x.targets[0], ast.Name) and isinstance(x.value, ast.Attribute):
                        alias.setdefault(x.targets[0].id, []).append(x.value)
                for g in guards:
                    for name in boolx.atoms(g):
                        e = ast.parse(name, mode="eval").body
                        subj = e.left if isinstance(e, ast.Compare) else e
                        if isinstance(subj, ast.Name) and len(alias.get(subj.id, [])) == 1:
                            subj = alias[subj.id][0]
                        root = subj
                        while isinstance(root, ast.Attribute):
                            root = root.value
                        is_slot = isinstance(subj, ast.Attribute) and isinstance(root, ast.Name) and root.id in astparams
                        is_flag = isinstance(subj, ast.Attribute) and subj.attr == "has_default_value"
                        if not is_slot and not is_flag and "default" in name:
                            bad.append(name)
                if bad:
                    run.report(rn, "%s:%s:presence-on-coerced-value(%s)" % (f.module.name, f.qualname, bad[0]), f.where(site),
                               "whether a default exists is decided by `%s`, a Python-level value: a default declared as `null` "
                               "coerces to None and is dropped (has_default_value becomes false, enclosing defaults lose the key, "
                               "the printed SDL loses `= null`)" % bad[0])
                elif not guards and not carried:
                    run.report(rn, "%s:%s:unguarded-default" % (f.module.name, f.qualname), f.where(site),
                               "default_value is stored unconditionally from %s: elements without a declared default get one" % norm_stmt(val)[:60])
