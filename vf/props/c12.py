"""C12 — schema -> SDL printing is a pure function; literals rendered through
value -> AST -> printer; type printer dispatch exhaustive."""
import ast

from .. import shapes
from ..model import AnalysisError, own_nodes, norm_stmt

PR = "py_gql.sdl.ast_schema_printer"
TYPES = "py_gql.schema.types"
SINGLE_USE = {"map", "filter", "zip", "iter", "reversed", "enumerate"}
KINDS = ["ScalarType", "ObjectType", "InterfaceType", "UnionType", "EnumType", "InputObjectType"]


def single_use_iterators(prog):
    """(module, name, expr) for module-level names bound to generator expressions or iterator-returning builtins."""
    out = []
    for m in prog.modules.values():
        for name, exprs in m.assigns.items():
            for e in exprs:
                if isinstance(e, ast.GeneratorExp) or (isinstance(e, ast.Call) and isinstance(e.func, ast.Name) and e.func.id in SINGLE_USE):
                    out.append((m, name, e))
    return out


def print_closure(prog):
    cls = prog.get_class(PR, "ASTSchemaPrinter")
    start = cls.find_method("__call__")
    seen, stack = {}, [start]
    while stack:
        f = stack.pop()
        if f.key in seen:
            continue
        seen[f.key] = f
        for n in ast.walk(f.node):
            if isinstance(n, ast.Call):
                for c in prog.resolve_call(f, n):
                    if c.module.name.startswith("py_gql") and c.key not in seen:
                        stack.append(c)
            elif isinstance(n, ast.Attribute) and isinstance(n.value, ast.Name) and n.value.id == "self" and f.cls is not None:
                m = f.cls.find_method(n.attr)
                if m is not None and m.key not in seen:
                    stack.append(m)
    return cls, list(seen.values())


def check(prog, run):
    from . import c03 as _c03e
    _c03e.check_block_string_terminator(prog, run, "E2")   # = C03.E2: directive arguments are printed as block strings
    check_schema_block_omission(prog, run, "P12")
    from . import c03 as _c03
    _c03.check_indent(prog, run, "I1")   # = C03.I1: block strings of directive arguments are laid out by _indent
    cls, fns = print_closure(prog)

    # ---- P1 purity / history independence
    r = run.rule("P1", "functions reachable from ASTSchemaPrinter.__call__ write no module/class/default-argument state and "
                       "read no module-level single-use iterator (generator expression, map/filter/zip/iter/reversed result): "
                       "repeated serialisation cannot depend on earlier calls", 25)
    iters = single_use_iterators(prog)
    for f in fns:
        run.looked_at(f)
        r.instance(f.key)
        mod = f.module
        for n in ast.walk(f.node):
            if isinstance(n, (ast.Global, ast.Nonlocal)) and f.parent is None:
                run.report(r, "%s:%s:global" % (mod.name, f.qualname), f.where(n), "`%s` in the serialisation path" % norm_stmt(n))
            if isinstance(n, ast.Name) and isinstance(n.ctx, ast.Load):
                for (m, name, e) in iters:
                    b = prog.resolve_name(mod, n.id)
                    if n.id == name and b is not None and b[0] == "assign" and b[2] is m and b[1] is e:
                        run.report(r, "%s:%s:single-use-iterator(%s)" % (mod.name, f.qualname, name), f.where(n),
                                   "%s reads module-level `%s = %s`, an iterator that is exhausted by its first traversal: later calls "
                                   "see it empty, so the printed SDL depends on how often the printer ran before"
                                   % (f.qualname, name, " ".join(ast.unparse(e).split())[:80]))
            if isinstance(n, ast.Attribute) and isinstance(n.ctx, ast.Store) and isinstance(n.value, ast.Name):
                if n.value.id == "self" and f.name != "__init__" and f.cls is cls:
                    run.report(r, "%s:%s:writes-self.%s" % (mod.name, f.qualname, n.attr), f.where(n), "printing mutates the printer instance")
                elif n.value.id in f.params and n.value.id not in ("self",) and f.module.name == PR:
                    run.report(r, "%s:%s:writes-argument.%s.%s" % (mod.name, f.qualname, n.value.id, n.attr), f.where(n),
                               "printing mutates its argument %s.%s" % (n.value.id, n.attr))
        # a local bound to an attribute/subscript of something else is an alias of that object: in-place updates of it
        # (+=, append, extend, sort, ...) write into the schema / AST nodes being printed
        if f.module.name == PR:
            alias = {}
            for n in own_nodes(f.node):
                if isinstance(n, ast.Assign) and len(n.targets) == 1 and isinstance(n.targets[0], ast.Name):
                    vals = [n.value]
                    if isinstance(n.value, ast.IfExp):
                        vals = [n.value.body, n.value.orelse]
                    for v in vals:
                        if isinstance(v, (ast.Attribute, ast.Subscript)) and not ast.unparse(v).startswith("self."):
                            alias.setdefault(n.targets[0].id, []).append(v)
            for n in own_nodes(f.node):
                tgt = None
                if isinstance(n, ast.AugAssign) and isinstance(n.target, ast.Name) and n.target.id in alias:
                    tgt, how = n.target.id, "augmented assignment"
                elif isinstance(n, ast.Call) and isinstance(n.func, ast.Attribute) and isinstance(n.func.value, ast.Name) and n.func.value.id in alias \
                        and n.func.attr in ("append", "extend", "insert", "sort", "reverse", "pop", "remove", "clear", "update", "setdefault"):
                    tgt, how = n.func.value.id, ".%s()" % n.func.attr
                elif isinstance(n, ast.Subscript) and isinstance(n.ctx, (ast.Store, ast.Del)) and isinstance(n.value, ast.Name) and n.value.id in alias:
                    tgt, how = n.value.id, "item assignment"
                if tgt:
                    run.report(r, "%s:%s:mutates-alias(%s)" % (mod.name, f.qualname, tgt), f.where(n),
                               "`%s` updates `%s` in place, and `%s` may be the very list `%s` of the object being printed: every call "
                               "changes the schema's nodes, so repeated serialisation gives different text" % (norm_stmt(n), tgt, tgt, ast.unparse(alias[tgt][0])))
        a = f.node.args
        for d in list(a.defaults) + [x for x in a.kw_defaults if x is not None]:
            if isinstance(d, (ast.Dict, ast.List, ast.Set)):
                # written?
                names = [x.arg for x in a.args + a.kwonlyargs]
                for nm in names:
                    for x in ast.walk(f.node):
                        if isinstance(x, ast.Subscript) and isinstance(x.ctx, ast.Store) and isinstance(x.value, ast.Name) and x.value.id == nm:
                            run.report(r, "%s:%s:mutable-default(%s)" % (mod.name, f.qualname, nm), f.where(x), "a mutable default argument is written on the serialisation path")
    # package-wide list of such iterators read inside any function (cross-reference)
    for (m, name, e) in iters:
        readers = []
        for f in prog.all_funcs():
            if f.module is m or prog.resolve_name(f.module, name) is not None:
                for n in ast.walk(f.node):
                    if isinstance(n, ast.Name) and n.id == name and isinstance(n.ctx, ast.Load):
                        b = prog.resolve_name(f.module, name)
                        if b and b[0] == "assign" and b[1] is e:
                            readers.append(f)
                            break
        r.instance("module-level iterator %s.%s read by %s" % (m.name, name, [x.qualname for x in readers]))

    # ---- P2 literal rendering
    r = run.rule("P2", "default values and deprecation reasons are rendered only through print_ast(ast_node_from_value(value, type))", 2)
    for meth, attr, typ in (("print_input_value", "default_value", None), ("print_deprecated", "deprecation_reason", "String")):
        f = cls.find_method(meth)
        shapes.require(f is not None, "C12.P2: %s not found" % meth)
        ok = False
        from ..canon import Canon
        _cn = Canon(f.node)
        for n in own_nodes(f.node):
            if not (isinstance(n, ast.Call) and isinstance(n.func, ast.Name) and n.func.id == "print_ast" and n.args):
                continue
            inner = _cn.expr(n.args[0])
            if isinstance(inner, ast.Call) and isinstance(inner.func, ast.Name) and inner.func.id == "ast_node_from_value":
                if inner.args and isinstance(inner.args[0], ast.Attribute) and inner.args[0].attr == attr:
                    if typ is None:
                        ok = len(inner.args) == 2 and isinstance(inner.args[1], ast.Attribute) and inner.args[1].attr == "type" \
                            and ast.unparse(inner.args[1].value) == ast.unparse(inner.args[0].value)
                    else:
                        ok = len(inner.args) == 2 and ast.unparse(inner.args[1]) == typ
        bad = [n for n in own_nodes(f.node) if isinstance(n, ast.Call) and ast.unparse(n.func) in ("json.dumps", "repr", "str") and
               any(isinstance(x, ast.Attribute) and x.attr == attr for x in ast.walk(n))]
        r.instance("%s renders %s through value->AST->printer: %s" % (meth, attr, ok))
        if not ok or bad:
            run.report(r, "%s:ASTSchemaPrinter.%s:literal-rendering" % (PR, meth), f.where(),
                       "%s is not rendered as print_ast(ast_node_from_value(%s, <declared type>)): the SDL literal may not parse back to the value" % (attr, attr))

    # ---- P3 dispatch + attribute coverage
    r = run.rule("P3", "print_type dispatches on the six named type kinds and ends in an error; each type printer reads the "
                       "printable attributes of its class (name, description, members, interfaces, arguments, defaults, deprecation)", 12)
    pt = cls.find_method("print_type")
    shapes.require(pt is not None, "C12.P3: print_type not found")
    handled = {}
    from .. import dispatch
    from ..canon import Canon
    hier = dispatch.Hierarchy(prog)
    pcn = Canon(pt.node)
    for k in KINDS:
        # path form: what print_type returns when its argument is exactly a k (independent of the chain's shape)
        targets = set()
        for kind, st, env in dispatch.executions(hier, pt, pt.params[1], k):
            if kind == "return" and st.value is not None:
                v = pcn.expr(st.value)
                if isinstance(v, ast.Call) and isinstance(v.func, ast.Attribute) and isinstance(v.func.value, ast.Name) and v.func.value.id == "self":
                    targets.add(v.func.attr)
                else:
                    targets.add(None)
            else:
                targets.add(None)
        if len(targets) == 1 and None not in targets:
            handled[k] = targets.pop()
    for k in KINDS:
        r.instance("print_type %s -> %s" % (k, handled.get(k)))
        if k not in handled or cls.find_method(handled[k]) is None:
            run.report(r, "%s:ASTSchemaPrinter.print_type:unhandled(%s)" % (PR, k), pt.where(), "%s is not printed" % k)
    unknown = dispatch.executions(hier, pt, pt.params[1], "ListType")
    if not unknown or any(kind != "raise" for kind, _st, _env in unknown):
        run.report(r, "%s:ASTSchemaPrinter.print_type:no-final-error" % PR, pt.where(), "unknown kinds are printed as nothing")
    want = {
        "ScalarType": {"name", "description"},
        "ObjectType": {"name", "description", "fields", "interfaces"},
        "InterfaceType": {"name", "description", "fields"},
        "UnionType": {"name", "description", "types"},
        "EnumType": {"name", "description", "values"},
        "InputObjectType": {"name", "description", "fields"},
    }
    for k, attrs in want.items():
        if k not in handled:
            continue
        f = cls.find_method(handled[k])
        if f is None:
            continue
        reads = shapes.attr_reads(prog, f, f.params[1], depth=2)
        for a in sorted(attrs):
            r.instance("%s reads %s.%s" % (handled[k], k, a))
            if a not in reads:
                run.report(r, "%s:ASTSchemaPrinter.%s:unread(%s.%s)" % (PR, handled[k], k, a), f.where(), "%s never reads %s.%s: it is missing from the SDL" % (handled[k], k, a))
    member_want = {
        "print_fields": ("field", {"name", "arguments", "type", "description", "deprecated"}),
        "print_input_value": (None, {"name", "type", "has_default_value", "default_value"}),
        "print_enum_type": ("enum_value", {"name", "description", "deprecated"}),
        "print_directive_definition": (None, {"name", "arguments", "locations", "description"}),
    }
    for meth, (var, attrs) in member_want.items():
        f = cls.find_method(meth)
        if f is None:
            run.report(r, "%s:ASTSchemaPrinter:missing(%s)" % (PR, meth), "src/py_gql/sdl/ast_schema_printer.py", "%s not found" % meth)
            continue
        v = var or f.params[1]
        reads = set()
        for n in ast.walk(f.node):
            if isinstance(n, ast.Attribute) and isinstance(n.value, ast.Name) and n.value.id == v:
                reads.add(n.attr)
            if isinstance(n, ast.Call):
                for a0 in n.args:
                    if isinstance(a0, ast.Name) and a0.id == v:
                        for callee in prog.resolve_call(f, n):
                            idx = n.args.index(a0)
                            ps = callee.params[1:] if callee.cls is not None else callee.params
                            if idx < len(ps):
                                reads |= shapes.attr_reads(prog, callee, ps[idx], depth=1)
        for a in sorted(attrs):
            r.instance("%s reads %s.%s" % (meth, v, a))
            if a not in reads and not (a == "deprecated" and "deprecation_reason" in reads):
                run.report(r, "%s:ASTSchemaPrinter.%s:unread(%s)" % (PR, meth, a), f.where(), "%s never reads .%s of the member it prints" % (meth, a))

    # ---- P4 ordering
    r = run.rule("P4", "no iteration over a set feeds the output; the type and directive lists are sorted by name", 2)
    for f in fns:
        if f.module.name != PR:
            continue
        for n in ast.walk(f.node):
            it = None
            if isinstance(n, (ast.For, ast.comprehension)):
                it = n.iter
            if it is not None and (isinstance(it, (ast.Set, ast.SetComp)) or (isinstance(it, ast.Call) and isinstance(it.func, ast.Name) and it.func.id in ("set", "frozenset"))
                                   or (isinstance(it, ast.BinOp) and isinstance(it.op, (ast.Sub, ast.BitAnd, ast.BitOr)) and "set" in ast.unparse(it))):
                run.report(r, "%s:%s:set-iteration" % (PR, f.qualname), f.where(it), "output produced by iterating a set: `%s`" % ast.unparse(it))
    call = cls.find_method("__call__")
    sorts = [n for n in own_nodes(call.node) if isinstance(n, ast.Call) and isinstance(n.func, ast.Name) and n.func.id == "sorted"]
    for s in sorts:
        key = [k.value for k in s.keywords if k.arg == "key"]
        r.instance("sorted(..., key=%s)" % (ast.unparse(key[0]) if key else None))
        if not key or not (isinstance(key[0], ast.Lambda) and ast.unparse(key[0].body).endswith(".name")):
            run.report(r, "%s:ASTSchemaPrinter.__call__:sort-key" % PR, call.where(s), "a definition list is not sorted by name")
    if len(sorts) < 2:
        run.report(r, "%s:ASTSchemaPrinter.__call__:unsorted" % PR, call.where(), "types/directives are not both sorted: output follows registration order")

    # ---- P5 writer/reader agreement: every definition the printer can emit is one the builder accepts
    r = run.rule("P5", "the definitions ASTSchemaPrinter.__call__ can emit under some option are definitions the schema builder "
                       "accepts: a collection C whose members are printed as definitions must not be a collection whose names the "
                       "builder of the same kind of map refuses for any object other than the member itself (an SDL-built "
                       "element is always a new object)", 2)
    SCHEMA = "py_gql.schema.schema"
    emitted = []
    for n in ast.walk(call.node):
        if isinstance(n, (ast.GeneratorExp, ast.ListComp)) and isinstance(n.elt, ast.Call) and isinstance(n.elt.func, ast.Attribute) \
                and n.elt.func.attr.startswith("print_") and len(n.generators) == 1 and isinstance(n.generators[0].iter, ast.Name):
            emitted.append((n.generators[0].iter.id, n.elt.func.attr, n))
    for coll, via, n in emitted:
        r.instance("printer emits %s(x) for x in %s" % (via, coll))
    refused = {}
    for f in prog.all_funcs():
        if f.module.name != SCHEMA:
            continue
        seeded = {}
        for n in own_nodes(f.node):
            if isinstance(n, ast.Assign) and isinstance(n.value, ast.DictComp) and isinstance(n.value.generators[0].iter, ast.Name) \
                    and n.value.generators[0].iter.id.isupper():
                seeded[ast.unparse(n.targets[0])] = n.value.generators[0].iter.id
        for n in own_nodes(f.node):
            if isinstance(n, ast.If) and shapes.raises_unconditionally(n.body) and isinstance(n.test, ast.Compare) \
                    and isinstance(n.test.ops[0], ast.IsNot) and isinstance(n.test.comparators[0], ast.Subscript):
                table = ast.unparse(n.test.comparators[0].value)
                # the guard: name in <names of the seeded collection>
                par = getattr(n, "_parent", None)
                if table in seeded and isinstance(par, ast.If) and n in par.body and "SPECIFIED" in ast.unparse(par.test).upper():
                    refused[seeded[table]] = (f, n)
    for coll, (f, n) in refused.items():
        r.instance("%s refuses any other object named like a member of %s" % (f.qualname, coll))
    for coll, via, n in emitted:
        if coll in refused:
            f, g = refused[coll]
            cond = None
            cur = n
            while getattr(cur, "_parent", None) is not None and cur is not call.node:
                par = cur._parent
                if isinstance(par, ast.IfExp) and cur is par.body:
                    cond = ast.unparse(par.test)
                cur = par
            run.report(r, "%s:ASTSchemaPrinter.__call__:emits-refused-definitions(%s)" % (PR, coll), call.where(n),
                       "with %s the printer emits a definition for every member of %s, and %s (%s) raises for any object of such a "
                       "name that is not the member itself: the printed SDL cannot be built back into a schema"
                       % (cond or "some option", coll, f.qualname, f.where(g)))

    # ---- P6 one-sided length comparisons
    r = run.rule("P6", "in the print closure, length tests against one bound are complementary: when a function passes text through "
                       "unchanged if `len(x) <= B` and breaks it if `len(y) > B` the case len == B belongs to exactly one side; a pair "
                       "`<` / `>` against the same bound leaves text of exactly that length neither fitting nor overflowing (it is "
                       "re-flowed although nothing needs wrapping, which changes descriptions on the way through SDL)", 1)
    for f in fns:
        per_bound = {}
        for n in own_nodes(f.node):
            if isinstance(n, ast.Compare) and len(n.ops) == 1 and isinstance(n.left, ast.Call) and isinstance(n.left.func, ast.Name) \
                    and n.left.func.id == "len" and isinstance(n.comparators[0], ast.Name) and isinstance(n.ops[0], (ast.Lt, ast.LtE, ast.Gt, ast.GtE)):
                per_bound.setdefault(n.comparators[0].id, []).append(n)
        for bound, cmps in per_bound.items():
            ops = {type(c.ops[0]).__name__ for c in cmps}
            if len(cmps) < 2:
                continue
            r.instance("%s: len(...) vs %s with %s" % (f.qualname, bound, sorted(ops)))
            fits = ops & {"Lt", "LtE"}
            over = ops & {"Gt", "GtE"}
            if fits and over and not ((fits == {"LtE"} and over == {"Gt"}) or (fits == {"Lt"} and over == {"GtE"})):
                run.report(r, "%s:%s:boundary(%s)" % (f.module.name, f.qualname, bound), f.where(cmps[0]),
                           "length tests against `%s` use %s: a text of exactly that length is classified by neither / both of the "
                           "fitting and overflowing tests" % (bound, " and ".join("`%s`" % " ".join(ast.unparse(c).split()) for c in cmps)))

    # ---- P7 the integer-literal pattern used to render ID / custom scalar defaults
    r = run.rule("P7", "the pattern deciding that a string default (ID, custom scalar) is rendered as an integer literal accepts exactly "
                       "/-?(0|[1-9][0-9]*)/ (Python regex semantics modelled, incl. `$` matching before a trailing newline): any other "
                       "string rendered as a number is read back as a different default", 1)
    import string
    from .. import regexrule, rx
    D = frozenset(string.digits)
    int_ref = rx.cat(rx.opt(rx.sym(frozenset({"-"}))), rx.alt(rx.sym(frozenset({"0"})), rx.cat(rx.sym(D - {"0"}), rx.star(rx.sym(D)))))
    regexrule.check(prog, run, r, "py_gql.utilities.ast_node_from_value", "_INT_RE", int_ref, "an integer literal",
                    "the printed default is read back as a different value")

    # ---- P8 nothing on the printing path remembers an earlier answer
    from .. import nomemo
    nomemo.check(prog, run, "P8", [call], "ASTSchemaPrinter.__call__",
                 "values that compare equal across types (True == 1 == 1.0) or objects changed in place since would be rendered from "
                 "an earlier call, so the text depends on what was printed before", 30)

    # ---- P9 every provided member of an input-object default is rendered
    from .. import boolx
    r = run.rule("P9", "_object_value_node_from_value: for a member whose name is present in the value (membership atom true) every path "
                       "through the per-member loop body appends an ObjectField — explicit null included; dropping a provided member makes "
                       "the rebuilt schema fill in that member's own default", 1)
    ov = prog.get_func("py_gql.utilities.ast_node_from_value", "_object_value_node_from_value")
    run.looked_at(ov)
    loops = [n for n in own_nodes(ov.node) if isinstance(n, ast.For) and any(isinstance(x, ast.Attribute) and x.attr == "fields" for x in ast.walk(n.iter))]
    if len(loops) != 1:
        raise AnalysisError("C12.P9: per-member loop of _object_value_node_from_value not found")
    fake = ast.FunctionDef(name="_", args=ov.node.args, body=loops[0].body, decorator_list=[], returns=None, type_comment=None)

    def decide(t):
        try:
            e = ast.parse(t, mode="eval").body
        except SyntaxError:
            return None
        return True if isinstance(e, ast.Compare) and len(e.ops) == 1 and isinstance(e.ops[0], ast.In) else None
    try:
        _ev, exits = boolx.walk_under(fake, decide)
    except ValueError as e:
        raise AnalysisError("C12.P9: %s" % e)
    r.instance("per-member loop body: %d paths with the member present" % len(exits))
    for kind, st, env in exits:
        if kind == "raise":
            continue
        appended = any(isinstance(c.func, ast.Attribute) and c.func.attr == "append" for c in env.get(boolx.CALLS, ()))
        if not appended:
            cond = ", ".join("%s=%s" % kv for kv in sorted(env.items()) if kv[0] not in boolx.META)
            run.report(r, "py_gql.utilities.ast_node_from_value:_object_value_node_from_value:provided-member-dropped", ov.where(st) if st is not None else ov.where(loops[0]),
                       "a member present in the value can be left out of the printed object literal (when %s)" % cond)
            break

    # ---- P10 an argument's description is printed whenever one argument has one
    r = run.rule("P10", "ASTSchemaPrinter.print_arguments: with descriptions enabled, the form that prints no argument descriptions is "
                        "chosen only when no argument has one — the quantified test over the arguments' `.description` is folded for the "
                        "presence vectors (T), (F), (T,F), (F,T), (T,T), (F,F) and must equal `some argument is described`; a form "
                        "chosen by `all(...)` drops the descriptions of a partly described argument list from the printed schema", 1)
    pa = prog.get_func("py_gql.sdl.ast_schema_printer", "ASTSchemaPrinter.print_arguments")
    run.looked_at(pa)
    argv = pa.params[1]

    class _Unknown(Exception):
        pass

    def fold(e, vec, binding):
        """value of a quantified expression over the argument list for one presence vector (True = described)"""
        if isinstance(e, ast.Call) and isinstance(e.func, ast.Name) and e.func.id in ("any", "all") and len(e.args) == 1 \
                and isinstance(e.args[0], (ast.GeneratorExp, ast.ListComp)) and len(e.args[0].generators) == 1:
            g = e.args[0].generators[0]
            if not (isinstance(g.iter, ast.Name) and g.iter.id == argv and isinstance(g.target, ast.Name)):
                raise _Unknown()
            vals = []
            for d in vec:
                b = dict(binding)
                b[g.target.id] = d
                if all(fold(c, vec, b) for c in g.ifs):
                    vals.append(fold(e.args[0].elt, vec, b))
            return any(vals) if e.func.id == "any" else all(vals)
        if isinstance(e, ast.Attribute) and e.attr == "description" and isinstance(e.value, ast.Name) and e.value.id in binding:
            return binding[e.value.id]
        if isinstance(e, ast.Call) and isinstance(e.func, ast.Name) and e.func.id == "bool" and len(e.args) == 1:
            return bool(fold(e.args[0], vec, binding))
        if isinstance(e, ast.UnaryOp) and isinstance(e.op, ast.Not):
            return not fold(e.operand, vec, binding)
        if isinstance(e, ast.BoolOp):
            vals = [fold(v, vec, binding) for v in e.values]
            return all(vals) if isinstance(e.op, ast.And) else any(vals)
        if isinstance(e, ast.Compare) and len(e.ops) == 1 and isinstance(e.ops[0], (ast.Is, ast.IsNot)) \
                and isinstance(e.comparators[0], ast.Constant) and e.comparators[0].value is None:
            v = fold(e.left, vec, binding)
            return (not v) if isinstance(e.ops[0], ast.Is) else bool(v)
        raise _Unknown()

    quantified = []
    for n in own_nodes(pa.node):
        if isinstance(n, ast.Call) and isinstance(n.func, ast.Name) and n.func.id in ("any", "all") and any(
                isinstance(x, ast.Attribute) and x.attr == "description" for x in ast.walk(n)):
            quantified.append(n)
    if len(quantified) != 1:
        raise AnalysisError("C12.P10: the test over the arguments' descriptions was not recognised in print_arguments (%d candidates)" % len(quantified))
    q = quantified[0]
    qtxt = boolx.text(q)
    try:
        table = {vec: fold(q, vec, {}) for vec in ((True,), (False,), (True, False), (False, True), (True, True), (False, False))}
    except _Unknown:
        raise AnalysisError("C12.P10: cannot fold `%s`" % qtxt)
    # which branch prints descriptions: the one that reaches print_description
    def decide_factory(val):
        def decide(t):
            if t == qtxt:
                return val
            if "include_descriptions" in t:
                return True
            if t == argv:
                return True      # a non-empty argument list
            return None
        return decide
    described_when = {}
    for val in (True, False):
        try:
            # the argument list is not empty here: a loop over it runs (read as one iteration)
            _ev, exits = boolx.walk_under(ast.fix_missing_locations(boolx.body_function(boolx.at_least_once(pa.node.body))), decide_factory(val))
        except ValueError as e:
            raise AnalysisError("C12.P10: %s" % e)
        prints = set()
        for kind, st, env in exits:
            if kind != "return":
                continue
            penv = boolx.path_env(env.get(boolx.STMTS, ()))
            calls = set()
            for c in env.get(boolx.CALLS, ()):
                fn = boolx.path_subst(c.func, penv) if isinstance(c.func, ast.Name) else c.func     # a bound method named first
                if isinstance(fn, ast.Attribute):
                    calls.add(fn.attr)
            prints.add("print_description" in calls)
        described_when[val] = prints
    r.instance("`%s` folds to %s; descriptions printed when it is True: %s, when False: %s"
               % (qtxt, {"".join("T" if d else "F" for d in k): v for k, v in table.items()}, sorted(described_when[True]), sorted(described_when[False])))
    for vec, val in sorted(table.items()):
        if any(vec) and False in described_when[val]:
            run.report(r, "py_gql.sdl.ast_schema_printer:ASTSchemaPrinter.print_arguments:description-dropped", pa.where(q),
                       "for an argument list whose descriptions are %s the test `%s` is %s and print_arguments takes the form without "
                       "descriptions: the described argument's description is missing from the printed schema"
                       % ("/".join("present" if d else "absent" for d in vec), qtxt, val))
            break

    # ---- P11 a first line that starts with a blank stays on the opening line
    r = run.rule("P11", "ASTSchemaPrinter.print_description, block form: the predicate deciding that the first line starts with "
                        "whitespace (then it is printed directly after the opening quotes, because the block-string reader would "
                        "strip it as common indentation otherwise) is folded for the first lines 'x', ' x', '\\\\tx' and must be False, "
                        "True, True: space and tab are the two blanks the reader dedents", 1)
    pd = prog.get_func("py_gql.sdl.ast_schema_printer", "ASTSchemaPrinter.print_description")
    run.looked_at(pd)
    firsts = [n.targets[0].id for n in own_nodes(pd.node) if isinstance(n, ast.Assign) and len(n.targets) == 1 and isinstance(n.targets[0], ast.Name)
              and isinstance(n.value, ast.Subscript) and isinstance(n.value.slice, ast.Constant) and n.value.slice.value == 0]
    if not firsts:
        raise AnalysisError("C12.P11: the first line of the description is not bound to a local in print_description")
    preds = []
    for first in sorted(set(firsts)):
        for n in own_nodes(pd.node):
            if isinstance(n, ast.Assign) and len(n.targets) == 1 and isinstance(n.targets[0], ast.Name):
                names = {x.id for x in ast.walk(n.value) if isinstance(x, ast.Name)}
                if first in names and names <= {first, "len", "bool"} and not isinstance(n.value, ast.Subscript):
                    # used as a condition somewhere?
                    used = any(isinstance(t, (ast.IfExp, ast.If)) and any(isinstance(y, ast.Name) and y.id == n.targets[0].id for y in ast.walk(t.test))
                               for t in own_nodes(pd.node))
                    if used:
                        preds.append((n, first))
    if len(preds) != 1:
        raise AnalysisError("C12.P11: leading-whitespace predicate of print_description not recognised (%d candidates)" % len(preds))
    first = preds[0][1]
    preds = [preds[0][0]]
    expr = ast.Expression(body=preds[0].value)
    ast.fix_missing_locations(expr)
    code = compile(expr, "<predicate>", "eval")
    got = {}
    for sample in ("x", " x", "\tx"):
        try:
            got[sample] = bool(eval(code, {"__builtins__": {"len": len, "bool": bool}}, {first: sample}))     # str methods on a constant
        except Exception as e:
            raise AnalysisError("C12.P11: cannot fold the predicate for %r: %s" % (sample, e))
    r.instance("`%s` folds to %s" % (" ".join(ast.unparse(preds[0].value).split()), got))
    if got != {"x": False, " x": True, "\tx": True}:
        run.report(r, "py_gql.sdl.ast_schema_printer:ASTSchemaPrinter.print_description:leading-whitespace", pd.where(preds[0]),
                   "the leading-whitespace test `%s` gives %s for the first lines 'x', ' x', '\\tx' (expected False, True, True): a "
                   "description starting with the blank it misses is printed on its own indented line and read back without it"
                   % (" ".join(ast.unparse(preds[0].value).split()), [got[k] for k in ("x", " x", "\tx")]))


def check_schema_block_omission(prog, run, rule_id):
    from .. import boolx
    """The `schema { ... }` block is left out only when re-reading the text infers the same roots."""
    import re
    r = run.rule(rule_id, "ASTSchemaPrinter.print_schema_definition decided for the 27 combinations of (query, mutation, subscription) root "
                          "being absent / carrying the conventional name of ITS OWN operation / carrying another name (the conventional name "
                          "of another operation included), without schema directives: the block is omitted (the empty text is returned) "
                          "exactly when every present root carries its own conventional name - the builder infers roots from the names "
                          "Query / Mutation / Subscription, so `mutation: Subscription` printed without the block comes back as a "
                          "subscription root", 27)
    cls = prog.get_class("py_gql.sdl.ast_schema_printer", "ASTSchemaPrinter")
    f = cls.find_method("print_schema_definition")
    if f is None:
        raise AnalysisError("C12.%s: print_schema_definition not found" % rule_id)
    run.looked_at(f)
    sp = f.params[1]
    CONV = {"query": "Query", "mutation": "Mutation", "subscription": "Subscription"}
    import itertools
    bad = []
    for combo in itertools.product(("absent", "own", "other"), repeat=3):
        state = dict(zip(("query", "mutation", "subscription"), combo))

        def decide(t, state=state):
            m = re.match(r"^%s\.(query|mutation|subscription)_type( is None)?$" % re.escape(sp), t)
            if m:
                present = state[m.group(1)] != "absent"
                return (not present) if m.group(2) else present
            m = re.match(r"^%s\.(query|mutation|subscription)_type\.name == '(\w+)'$" % re.escape(sp), t)
            if m:
                return state[m.group(1)] == "own" and m.group(2) == CONV[m.group(1)]
            if t == "directives" or re.match(r"^\w*directives\w*$", t):
                return False
            return None
        try:
            _ev, exits = boolx.walk_under(f.node, decide)
        except ValueError as e:
            raise AnalysisError("C12.%s: %s" % (rule_id, e))
        outs = set()
        for kind, st, env in exits:
            if kind != "return":
                outs.add("<%s>" % kind)
                continue
            outs.add("omitted" if isinstance(st.value, ast.Constant) and st.value.value == "" else "printed")
        want = "omitted" if all(s in ("absent", "own") for s in combo) else "printed"
        r.instance("roots %s -> %s" % (combo, sorted(outs)))
        if outs != {want}:
            bad.append({"roots": combo, "outcome": sorted(outs), "expected": want})
    if bad:
        run.report(r, "py_gql.sdl.ast_schema_printer:ASTSchemaPrinter.print_schema_definition:block-omission", f.where(),
                   "the schema block is %s for roots (query, mutation, subscription) = %s (%d of 27 rows wrong): re-reading the printed "
                   "text infers other roots" % ("left out or undecided" if bad[0]["expected"] == "printed" else "printed", bad[0]["roots"], len(bad)),
                   {"rows": bad[:8]})
