"""C13 — schema validation: rule walk coverage, sibling member loops, accumulation
of violations, invalidation of the memoised verdict."""
import ast

from .. import shapes
from ..cfg import event_paths
from ..model import AnalysisError, own_nodes, norm_stmt

VAL = "py_gql.schema.validation"
SCHEMA = "py_gql.schema.schema"


def check(prog, run):
    check_type_name_exemption(prog, run, "V11")
    check_interface_argument_invariance(prog, run, "V10")
    sv = prog.get_class(VAL, "SchemaValidator")
    call = sv.methods["__call__"]

    # ---- V1 every validate_* is reachable; every kind with members is walked
    r = run.rule("V1", "SchemaValidator.__call__ reaches every validate_* method (directly or through another validate_*) and "
                       "dispatches on every type kind that has members", 12)
    methods = {n: m for n, m in sv.methods.items() if n.startswith("validate_")}
    called = set()
    stack = [call]
    seen = set()
    while stack:
        f = stack.pop()
        if f.key in seen:
            continue
        seen.add(f.key)
        run.looked_at(f)
        for n in own_nodes(f.node):
            if isinstance(n, ast.Call) and isinstance(n.func, ast.Attribute) and isinstance(n.func.value, ast.Name) and n.func.value.id == "self" \
                    and n.func.attr in sv.methods:
                called.add(n.func.attr)
                stack.append(sv.methods[n.func.attr])
    for n in sorted(methods):
        r.instance("%s reachable: %s" % (n, n in called))
        if n not in called:
            run.report(r, "%s:SchemaValidator:unreachable(%s)" % (VAL, n), methods[n].where(), "%s is never called: the rules it implements are not enforced" % n)
    want = {"ObjectType": {"validate_fields", "validate_interfaces"}, "InterfaceType": {"validate_fields"}, "UnionType": {"validate_union_members"},
            "EnumType": {"validate_enum_values"}, "InputObjectType": {"validate_input_fields"}}
    # path form: the executions of the walk for a validly named, non-builtin type of kind K call these validators every time
    from .. import dispatch, boolx
    hier = dispatch.Hierarchy(prog)
    tloops = [n for n in own_nodes(call.node) if isinstance(n, ast.For) and isinstance(n.target, ast.Name)
              and "types" in ast.unparse(n.iter)]
    shapes.require(len(tloops) == 1, "C13.V1: the loop over the schema's types was not found in SchemaValidator.__call__")
    tv = tloops[0].target.id

    def extra(t, tv=tv):
        if t.startswith("_is_valid_name("):
            return True
        if t.startswith("is_introspection_type(") or t == "%s in SPECIFIED_SCALAR_TYPES" % tv:
            return False
        return None
    got = {}
    for k in want:
        exits = dispatch.executions(hier, call, tv, k, extra, body=tloops[0].body)
        must = None
        for kind, st, env in exits:
            if kind in ("raise", "continue", "break"):
                continue
            names = {c.func.attr for c in env.get(boolx.CALLS, ()) if isinstance(c.func, ast.Attribute)}
            must = names if must is None else must & names
        got[k] = must or set()
    for k, ms in want.items():
        for m in sorted(ms):
            r.instance("%s -> %s" % (k, m))
            if m not in got.get(k, set()):
                run.report(r, "%s:SchemaValidator.__call__:not-dispatched(%s.%s)" % (VAL, k, m), call.where(), "%s types are not checked by %s" % (k, m))
    for top in ("validate_root_types", "validate_directives"):
        ok = any(isinstance(n, ast.Call) and isinstance(n.func, ast.Attribute) and n.func.attr == top for n in own_nodes(call.node))
        r.instance("__call__ calls %s: %s" % (top, ok))
        if not ok:
            run.report(r, "%s:SchemaValidator.__call__:not-called(%s)" % (VAL, top), call.where(), "%s is not part of the walk" % top)

    # ---- V2 sibling member loops
    r = run.rule("V2", "every loop over named members (fields, field arguments, directive arguments, directives, enum values, input "
                       "fields) checks the member name with check_valid_name, detects duplicates where the container allows them, "
                       "and checks input/output position with the matching predicate", 6)
    loops = []
    # a member loop may live in a private helper: attribute it to the validator entry it is (only) reachable from
    ENTRIES = ("validate_fields", "validate_input_fields", "validate_directives", "validate_enum_values")
    reach = {}
    for e in ENTRIES:
        seen_m, todo = set(), [e]
        while todo:
            cur = todo.pop()
            if cur in seen_m or cur not in sv.methods:
                continue
            seen_m.add(cur)
            for x in own_nodes(sv.methods[cur].node):
                if isinstance(x, ast.Call) and isinstance(x.func, ast.Attribute) and isinstance(x.func.value, ast.Name) and x.func.value.id == "self" \
                        and x.func.attr in sv.methods and x.func.attr not in ENTRIES:
                    todo.append(x.func.attr)
        for mm in seen_m:
            reach.setdefault(mm, set()).add(e)
    for real_name, m in sv.methods.items():
        owners = reach.get(real_name, set())
        mname = real_name if real_name in ENTRIES else (next(iter(owners)) if len(owners) == 1 else real_name)
        for n in own_nodes(m.node):
            if isinstance(n, ast.For) and isinstance(n.target, ast.Name) and isinstance(n.iter, (ast.Attribute, ast.Call)):
                it = ast.unparse(n.iter)
                kind = None
                if it.endswith(".fields") and mname == "validate_fields":
                    kind = ("field", "is_output_type", True)
                elif it.endswith(".arguments") and mname in ("validate_fields", "validate_directives"):
                    kind = ("argument", "is_input_type", True)
                elif it.endswith(".fields") and mname == "validate_input_fields":
                    kind = ("input field", "is_input_type", True)
                elif it.endswith(".values") and mname == "validate_enum_values":
                    kind = ("enum value", None, False)
                elif it.endswith("directives.values()") and mname == "validate_directives":
                    kind = ("directive", None, False)
                if kind:
                    loops.append((m, n, kind))
    for m, lp, (label, pred, dup) in loops:
        var = lp.target.id
        own = [x for st in lp.body for x in _walk_no_inner_loops(st)]
        # the per-member work may be factored out into a helper that receives the member: look inside it too
        scopes = [(own, var)]
        for x in own:
            if isinstance(x, ast.Call):
                for i, a in enumerate(x.args):
                    if isinstance(a, ast.Name) and a.id == var:
                        for callee in prog.resolve_call(m, x):
                            if callee.module.name != VAL or callee.name in ("check_valid_name", "add_error"):
                                continue
                            ps = callee.params
                            off = 1 if (callee.cls is not None and ps and ps[0] in ("self", "cls")) else 0
                            if i + off < len(ps):
                                run.looked_at(callee)
                                scopes.append(([y for st in callee.node.body for y in _walk_no_inner_loops(st)], ps[i + off]))

        def anywhere(pred_fn):
            return any(pred_fn(x, v) for nodes, v in scopes for x in nodes)
        names_checked = anywhere(lambda x, v: isinstance(x, ast.Call) and isinstance(x.func, ast.Attribute) and x.func.attr == "check_valid_name" and x.args
                                 and ast.unparse(x.args[0]) == "%s.name" % v)
        r.instance("%s: loop over %s `%s` name-check=%s" % (m.name, label, norm_stmt(lp), names_checked))
        key = "%s:SchemaValidator.%s:%s-loop" % (VAL, m.name, label.replace(" ", "-"))
        if not names_checked:
            run.report(r, key + ":no-name-check", m.where(lp), "%s names are never passed to check_valid_name: a schema with an invalid %s name is accepted" % (label, label))
        if pred:
            ok = anywhere(lambda x, v: isinstance(x, ast.Call) and isinstance(x.func, ast.Name) and x.func.id == pred and x.args and ast.unparse(x.args[0]) == "%s.type" % v)
            other = "is_input_type" if pred == "is_output_type" else "is_output_type"
            wrong = anywhere(lambda x, v: isinstance(x, ast.Call) and isinstance(x.func, ast.Name) and x.func.id == other and x.args and ast.unparse(x.args[0]) == "%s.type" % v)
            if not ok or wrong:
                run.report(r, key + ":position", m.where(lp), "%s types are not checked with %s" % (label, pred))
        if dup:
            dup_ok = False
            for nodes, v in scopes:
                tests = [x for x in nodes if isinstance(x, ast.Compare) and isinstance(x.ops[0], (ast.In, ast.NotIn)) and ast.unparse(x.left) == "%s.name" % v]
                adds = [x for x in nodes if isinstance(x, ast.Call) and isinstance(x.func, ast.Attribute) and x.func.attr == "add" and x.args and ast.unparse(x.args[0]) == "%s.name" % v]
                if tests and adds and ast.unparse(tests[0].comparators[0]) == ast.unparse(adds[0].func.value):
                    dup_ok = True
            if not dup_ok:
                run.report(r, key + ":duplicates", m.where(lp), "duplicate %s names are not detected" % label)

    # ---- V4 the validator inspects the resolver the executor will call
    r = run.rule("V4", "validate_fields checks the signature of the resolver the executor will actually call: the same fallback "
                       "chain field.resolver -> object type default_resolver -> schema default_resolver as Executor.field_resolver", 2)
    vf = sv.methods.get("validate_fields")
    fr = prog.get_func("py_gql.execution.executor", "Executor.field_resolver")

    from .. import boolx as _bxv
    import itertools as _it

    def selection_table(f, role):
        """{(field resolver set?, type default set?, schema default set?) -> resolvers selected}: which of the three the function ends
        up with on the executions consistent with each truth assignment - whatever the spelling (`a or b or c`, a ladder of
        `if not x:`, early returns in a helper).  ``role(env, st)`` yields the expressions holding the selected resolver."""
        texts = sorted({" ".join(ast.unparse(n).split()) for n in ast.walk(f.node) if isinstance(n, ast.Attribute) and isinstance(n.ctx, ast.Load)
                        and n.attr.endswith("resolver") and not (isinstance(getattr(n, "_parent", None), ast.Call) and n._parent.func is n)})

        def norm(t):
            recv, _, attr = t.rpartition(".")
            return ("schema" if recv.split(".")[0] in ("self", "executor", "schema") and ("default" in attr) else "member") + "." + attr.lstrip("_")
        names = sorted({norm(t) for t in texts})
        table = {}
        for combo in _it.product((True, False), repeat=len(names)):
            asg = dict(zip(names, combo))

            def truth_of(t):
                t = " ".join(t.split())
                if t in texts:
                    return asg[norm(t)]
                for suf, pos in ((" is not None", True), (" is None", False)):
                    if t.endswith(suf) and t[:-len(suf)] in texts:
                        return asg[norm(t[:-len(suf)])] == pos
                if t.startswith("isinstance(") and t.endswith("ObjectType)"):
                    return True
                return None

            def select(e):
                if isinstance(e, ast.BoolOp) and isinstance(e.op, ast.Or):
                    for v in e.values[:-1]:
                        sv_ = select(v)
                        if sv_ is not None and truth_of(ast.unparse(sv_)) is True:
                            return sv_
                    return select(e.values[-1])
                if isinstance(e, ast.IfExp):
                    tv = truth_of(ast.unparse(e.test))
                    if tv is None:
                        raise AnalysisError("C13.V4: cannot decide `%s` in %s" % (ast.unparse(e.test), f.qualname))
                    return select(e.body if tv else e.orelse)
                if isinstance(e, ast.Constant) and e.value is None:
                    return None
                return e
            def decide(t, env, e, truth_of=truth_of):
                d = truth_of(t)
                if d is None and e is not None:
                    # a local holding one of the three (`own = field.resolver` ... `if own:`) is decided like what it holds
                    try:
                        v = _bxv.path_subst(e, _bxv.path_env(env.get(_bxv.STMTS, ())))
                        d = truth_of(" ".join(ast.unparse(v).split()))
                    except Exception:
                        d = None
                return d
            decide.wants_env = True
            try:
                _ev, exits = _bxv.walk_under(f.node, decide)
            except ValueError as e:
                raise AnalysisError("C13.V4: %s" % e)
            sel = set()
            for kind, st, env in exits:
                stmts = env.get(_bxv.STMTS, ())
                for holder, expr in role(env, stmts):
                    v = select(_bxv.path_subst(expr, _bxv.path_env(stmts, holder)))
                    t = " ".join(ast.unparse(v).split()) if v is not None else None
                    if t is not None and t in texts and truth_of(t) is not False:
                        sel.add(norm(t))
                    elif t is not None and t not in texts:
                        sel.add("<%s>" % t[:40])
            table[tuple(sorted(k for k, v in asg.items() if v))] = sel
        return names, table

    def stmt_of(c):
        while c is not None and not isinstance(c, ast.stmt):
            c = getattr(c, "_parent", None)
        return c

    def validator_role(env, stmts):
        for c in env.get(_bxv.CALLS, ()):
            if isinstance(c.func, ast.Attribute) and c.func.attr == "_validate_resolver_arguments":
                callee = sv.methods.get("_validate_resolver_arguments")
                ps = [p for p in callee.params if p != prog.self_name(callee)]
                idx = ps.index("resolver") if "resolver" in ps else len(ps) - 1
                arg = next((k.value for k in c.keywords if k.arg == "resolver"), c.args[idx] if idx < len(c.args) else None)
                if arg is not None:
                    yield stmt_of(c), arg

    def executor_role(env, stmts):
        for st in stmts:
            if isinstance(st, ast.Assign) and len(st.targets) == 1 and isinstance(st.targets[0], ast.Subscript):
                yield st, st.targets[0].slice
    if sv.methods.get("_validate_resolver_arguments") is None:
        raise AnalysisError("C13.V4: SchemaValidator._validate_resolver_arguments not found")
    vnames, vtab = selection_table(vf, validator_role)
    enames, etab = selection_table(fr, executor_role)
    r.instance("validator selection %s" % {k: sorted(v) for k, v in sorted(vtab.items())})
    r.instance("executor selection %s" % {k: sorted(v) for k, v in sorted(etab.items())})
    if not any(etab.values()):
        raise AnalysisError("C13.V4: Executor.field_resolver fallback chain not recognised")
    if not any(vtab.values()):
        raise AnalysisError("C13.V4: the resolver handed to the signature check of validate_fields was not found")
    bad = []
    for k in sorted(set(vtab) | set(etab)):
        ve, ee = vtab.get(k, set()), etab.get(k, set())
        if ve and ee and ve != ee:
            bad.append((k, sorted(ve), sorted(ee)))
        elif ee and not ve and k:        # the executor calls a user-supplied resolver the validator never looks at
            if any(x.startswith("member.") for x in ee):
                bad.append((k, sorted(ve), sorted(ee)))
    if vnames != enames:
        bad.append(("sources", vnames, enames))
    if bad:
        run.report(r, "%s:SchemaValidator.validate_fields:resolver-chain" % VAL, vf.where(),
                   "the validator and the executor do not pick the same resolver: %s (resolvers present -> validator checks / executor "
                   "calls): an incompatible resolver can go unchecked (or a compatible schema be rejected)" % bad[:3])

    # ---- V3 accumulate, do not raise
    r = run.rule("V3", "SchemaValidator methods never raise (violations are accumulated); validate_schema raises "
                       "SchemaValidationError(validator.errors) iff the validator is falsy", 10)
    for n, m in sv.methods.items():
        r.instance(m.qualname)
        for x in own_nodes(m.node):
            if isinstance(x, ast.Raise):
                run.report(r, "%s:%s:raises" % (VAL, m.qualname), m.where(x), "%s raises instead of accumulating: later violations are not reported together" % m.qualname)
    vs = prog.get_func(VAL, "validate_schema")
    run.looked_at(vs)
    from .. import boolx
    ok = True
    vnames = [t.id for x in own_nodes(vs.node) if isinstance(x, ast.Assign) and isinstance(x.value, ast.Call)
              and ast.unparse(x.value.func).split(".")[-1] == "SchemaValidator" for t in x.targets if isinstance(t, ast.Name)]
    shapes.require(len(vnames) == 1, "C13.V3: validate_schema does not build one SchemaValidator")
    vname = vnames[0]
    for has_errors in (True, False):
        def decide(t, has_errors=has_errors):
            if t == vname:
                return not has_errors
            if t == "%s.errors" % vname:
                return has_errors
            return None
        try:
            _ev, vexits = boolx.walk_under(vs.node, decide)
        except ValueError as e:
            raise AnalysisError("C13.V3: %s" % e)
        for kind, st, env in vexits:
            if has_errors:
                good = kind == "raise" and st.exc is not None and ("SchemaValidationError(%s.errors)" % vname) in " ".join(ast.unparse(st.exc).split())
            else:
                good = kind != "raise"
            ok = ok and good
        ok = ok and bool(vexits)
    r.instance("validate_schema raises iff errors: %s" % ok)
    if not ok:
        run.report(r, "%s:validate_schema:verdict" % VAL, vs.where(), "validate_schema does not raise SchemaValidationError(validator.errors) exactly when errors were collected")
    bl = sv.methods.get("__bool__")
    if bl is None or "not self.errors" not in ast.unparse(bl.node):
        run.report(r, "%s:SchemaValidator.__bool__:shape" % VAL, sv.module.relpath, "validator truthiness is not `not self.errors`")

    # ---- W1 covariance check descends wrappers level by level
    from .. import pairwrap
    pairwrap.check(prog, run, "W1", ["py_gql.schema.schema", "py_gql.schema.validation"], 1)

    # ---- V6 the name pattern is exactly the specification's Name
    r = run.rule("V6", "the compiled pattern consulted by check_valid_name accepts exactly /[_A-Za-z][_0-9A-Za-z]*/ minus names starting "
                       "with `__` (Python regex semantics modelled: `\\w`/`\\d` are Unicode-aware without re.ASCII, `$` also matches "
                       "before a trailing newline, .match is anchored at the start only); decided on the product automaton with a "
                       "shortest witness", 1)
    import string
    from .. import regexrule, rx
    L, D = frozenset(string.ascii_letters), frozenset(string.digits)
    W = L | D | {"_"}
    name_ref = rx.alt(rx.cat(rx.sym(L), rx.star(rx.sym(W))), rx.sym(frozenset({"_"})),
                      rx.cat(rx.sym(frozenset({"_"})), rx.sym(L | D), rx.star(rx.sym(W))))
    regexrule.check(prog, run, r, VAL, "VALID_NAME_RE", name_ref, "a well-formed GraphQL name",
                    "schema validation accepts / rejects that name for every kind of schema element")

    # ---- W2 covariance over wrappers: a table over the wrapper kinds of (type, super type)
    r = run.rule("W2", "Schema.is_subtype over the nine combinations of wrapper kind (NonNull / List / named) of the candidate and the "
                       "super type, for two different types: equal wrappers recurse on both inner types; a non-null candidate under a "
                       "list or named super type recurses on its inner type only; a list candidate under anything else, and a named "
                       "candidate under a wrapped super type, are rejected (path-consistent walk with the isinstance / type() atoms "
                       "decided from the assumed kinds)", 8)
    isub = prog.get_func(SCHEMA, "Schema.is_subtype")
    run.looked_at(isub)
    ps = [p for p in isub.params if p != prog.self_name(isub)]
    shapes.require(len(ps) == 2, "C13.W2: is_subtype(type_, super_type) signature changed")
    a, b = ps
    from .. import boolx
    KIND = {"NN": {"NonNullType", "WrappingType"}, "L": {"ListType", "WrappingType"}, "N": set()}

    def want(k1, k2):
        if k1 == k2 and k1 != "N":
            return ("rec", "%s.type" % a, "%s.type" % b)
        if k1 == "NN":
            return ("rec", "%s.type" % a, b)
        if k1 == "L" or k2 != "N":
            return ("false",)
        return None
    for k1 in ("NN", "L", "N"):
        for k2 in ("NN", "L", "N"):
            w = want(k1, k2)
            if w is None:
                continue

            def decide(t, k1=k1, k2=k2):
                tt = t.replace(" ", "")
                if tt == "%s==%s" % (a, b) or tt == "%sis%s" % (a, b):
                    return False
                if tt in ("type(%s)==type(%s)" % (a, b), "type(%s)istype(%s)" % (a, b), "type(%s)==type(%s)" % (b, a)):
                    return k1 == k2
                try:
                    e = ast.parse(t, mode="eval").body
                except SyntaxError:
                    return None
                if isinstance(e, ast.Call) and isinstance(e.func, ast.Name) and e.func.id == "isinstance" and len(e.args) == 2 and isinstance(e.args[0], ast.Name):
                    named = {x.id for x in ast.walk(e.args[1]) if isinstance(x, ast.Name)}
                    wrappers = {"NonNullType", "ListType", "WrappingType"}
                    k = k1 if e.args[0].id == a else (k2 if e.args[0].id == b else None)
                    if k is None:
                        return None
                    if named & wrappers:
                        return bool(named & KIND[k])
                    if k != "N":
                        return False      # a wrapper is not an object / abstract / leaf type
                return None
            try:
                _ev, exits = boolx.walk_under(isub.node, decide)
            except ValueError as e:
                raise AnalysisError("C13.W2: %s" % e)
            r.instance("is_subtype(%s, %s): %d paths" % (k1, k2, len(exits)))
            for kind, st, env in exits:
                ok = False
                if kind == "return" and st.value is not None:
                    v = st.value
                    atoms = {k: x for k, x in env.items() if k not in boolx.META}
                    if w[0] == "rec":
                        ok = isinstance(v, ast.Call) and isinstance(v.func, ast.Attribute) and v.func.attr == "is_subtype" and \
                            [" ".join(ast.unparse(x).split()) for x in v.args] == [w[1], w[2]]
                    else:
                        try:
                            ok = boolx.evaluate(v, atoms) is False
                        except KeyError:
                            ok = isinstance(v, ast.Constant) and v.value is False
                if not ok:
                    names = {"NN": "non-null", "L": "list", "N": "named"}
                    run.report(r, "%s:Schema.is_subtype:kinds(%s,%s)" % (SCHEMA, k1, k2), isub.where(st) if st is not None else isub.where(),
                               "for a %s candidate and a different %s super type is_subtype ends with `%s`, expected %s" % (
                                   names[k1], names[k2], norm_stmt(st, 70) if st is not None else kind,
                                   ("is_subtype(%s, %s)" % (w[1], w[2])) if w[0] == "rec" else "False"))
                    break

    # ---- V7 kind predicates
    r = run.rule("V7", "the validator tests member kinds with the exact class the specification names: union members and the three root "
                       "types against ObjectType, implemented interfaces against InterfaceType — not a base class such as "
                       "GraphQLCompositeType / NamedType, which also admits interfaces and unions", 2)
    KIND_SITES = {"validate_union_members": {"ObjectType"}, "validate_root_types": {"ObjectType"}}
    for mname, want in KIND_SITES.items():
        m = sv.methods.get(mname)
        if m is None:
            raise AnalysisError("C13.V7: SchemaValidator.%s not found" % mname)
        run.looked_at(m)
        tests = [n for n in own_nodes(m.node) if isinstance(n, ast.Call) and isinstance(n.func, ast.Name) and n.func.id == "isinstance" and len(n.args) == 2]
        kinds = [({x.id for x in ast.walk(n.args[1]) if isinstance(x, ast.Name)}, n) for n in tests]
        r.instance("%s tests kinds %s" % (mname, [sorted(k) for k, _n in kinds]))
        if not kinds:
            run.report(r, "%s:SchemaValidator.%s:no-kind-test" % (VAL, mname), m.where(), "%s performs no isinstance test on its members" % mname)
        for k, n in kinds:
            if k != want:
                run.report(r, "%s:SchemaValidator.%s:kind(%s)" % (VAL, mname, "|".join(sorted(k))), m.where(n),
                           "%s accepts members that are instances of %s, the specification requires %s" % (mname, "/".join(sorted(k)), "/".join(sorted(want))))

    # ---- V5 loops over members run to completion
    r = run.rule("V5", "no member-checking loop (one whose body reports or delegates to validate_*/check_*) in a SchemaValidator method ends "
                       "early: no `break` and no `return` inside its body (a violation "
                       "found on one member skips at most that member with `continue`), so all violations are reported together", 10)
    for n, m in sv.methods.items():
        for x in own_nodes(m.node):
            if not isinstance(x, (ast.For, ast.While)):
                continue
            reporting = any(isinstance(y, ast.Call) and isinstance(y.func, ast.Attribute) and
                            (y.func.attr == "add_error" or y.func.attr.startswith(("validate_", "check_", "_validate_")))
                            for y in ast.walk(x))
            r.instance("%s: loop `%s` (checks members: %s)" % (m.qualname, norm_stmt(x)[:70], reporting))
            if not reporting:
                continue    # a pure search loop may stop at its first hit
            for y in ast.walk(x):
                if isinstance(y, ast.Return) or (isinstance(y, ast.Break)):
                    # find the member loop the statement leaves
                    what = "break" if isinstance(y, ast.Break) else "return"
                    run.report(r, "%s:%s:loop-ends-early(%s in `%s`)" % (VAL, m.qualname, what, norm_stmt(x)[:50]), m.where(y),
                               "`%s` inside `%s` stops the loop at the first member it concerns: violations on the remaining members "
                               "are not reported together with it" % (what, norm_stmt(x)[:70]))

    # ---- V9 the checks on a resolver's signature are independent of each other
    r9 = run.rule("V9", "SchemaValidator._validate_resolver_arguments, decided for (the resolver takes *args / does not) x (takes **kwargs "
                        "/ does not): each of its five complaints (missing parameter, positional-only parameter, optional argument "
                        "without default, fewer than three positional parameters, unknown required parameter) is reachable exactly "
                        "under the flags it depends on - *args waives only the three-positional-parameters complaint, **kwargs only "
                        "the missing-parameter one - so all violations of one resolver are reported together", 20)
    vra = prog.get_func(VAL, "SchemaValidator._validate_resolver_arguments")
    run.looked_at(vra)
    SITES = (("Missing resolver parameter", "missing", lambda varpos, kw: not kw),
             ("positional only", "positional-only", lambda varpos, kw: True),
             ("must have a default", "optional-without-default", lambda varpos, kw: True),
             ("3 positional", "three-positional", lambda varpos, kw: not varpos),
             ("does not match any known", "unknown-required", lambda varpos, kw: True))
    site_nodes = {}
    for n in own_nodes(vra.node):
        if isinstance(n, ast.Call) and isinstance(n.func, ast.Attribute) and n.func.attr == "add_error":
            txt = "".join(x.value for x in ast.walk(n) if isinstance(x, ast.Constant) and isinstance(x.value, str))
            for phrase, key, _w in SITES:
                if phrase in txt:
                    site_nodes.setdefault(key, []).append(n)
    shapes.require(len(site_nodes) == len(SITES), "C13.V9: complaints of _validate_resolver_arguments not recognised: %s" % sorted(site_nodes))
    flag_local = {}
    for n in own_nodes(vra.node):
        if isinstance(n, ast.Assign) and len(n.targets) == 1 and isinstance(n.targets[0], ast.Name):
            src = ast.unparse(n.value)
            if "VAR_POSITIONAL" in src and "VAR_KEYWORD" not in src:
                flag_local[n.targets[0].id] = "varpos"
            elif "VAR_KEYWORD" in src and "VAR_POSITIONAL" not in src:
                flag_local[n.targets[0].id] = "kw"
    for varpos in (False, True):
        for kw in (False, True):
            def decide(t, varpos=varpos, kw=kw):
                role = flag_local.get(t.strip())
                if role is None and "VAR_POSITIONAL" in t and "VAR_KEYWORD" not in t:
                    role = "varpos"
                if role is None and "VAR_KEYWORD" in t and "VAR_POSITIONAL" not in t:
                    role = "kw"
                if role is not None:
                    return varpos if role == "varpos" else kw
                return None
            try:
                ev, _exits = boolx.walk_under(vra.node, decide)
            except ValueError as e:
                raise AnalysisError("C13.V9: %s" % e)
            for phrase, key, want in SITES:
                got = any(id(n) in ev for n in site_nodes[key])
                r9.instance("*args=%s **kwargs=%s: complaint %s reachable: %s" % (varpos, kw, key, got))
                if got != want(varpos, kw):
                    run.report(r9, "%s:SchemaValidator._validate_resolver_arguments:%s(*args=%s,**kwargs=%s)" % (VAL, key, varpos, kw), vra.where(site_nodes[key][0]),
                               "for a resolver %s *args and %s **kwargs the complaint \"%s...\" is %s: %s"
                               % ("with" if varpos else "without", "with" if kw else "without", phrase,
                                  "never made" if want(varpos, kw) else "made",
                                  "an incompatible resolver passes validation and fails with TypeError when the field is executed" if want(varpos, kw)
                                  else "a compatible resolver is rejected"))

    # ---- I1 memoised verdict dropped by every mutator
    r = run.rule("I1", "every Schema method that writes a validation input (field.resolver, field.subscription_resolver, "
                       "object_type.default_resolver) resets self._is_valid on every path after the write, and on every path that "
                       "consults the member's current resolver and returns without writing; validate() recomputes when the verdict is None", 4)
    sch = prog.get_class(SCHEMA, "Schema")
    inputs = ("resolver", "subscription_resolver", "default_resolver")
    for n, m in sch.methods.items():
        writes = [x for x in own_nodes(m.node) if isinstance(x, ast.Attribute) and isinstance(x.ctx, ast.Store) and x.attr in inputs
                  and not (isinstance(x.value, ast.Name) and x.value.id == "self")]
        if not writes:
            continue
        run.looked_at(m)

        def ev(x):
            if isinstance(x, ast.Attribute) and isinstance(x.ctx, ast.Store):
                if x.attr in inputs and not (isinstance(x.value, ast.Name) and x.value.id == "self"):
                    return "write"
                if x.attr == "_is_valid" and isinstance(x.value, ast.Name) and x.value.id == "self":
                    return "invalidate"
            if isinstance(x, ast.Call) and isinstance(x.func, ast.Attribute) and x.func.attr == "_invalidate_and_rebuild_caches":
                return "invalidate"
            if isinstance(x, ast.Attribute) and isinstance(x.ctx, ast.Load) and x.attr in inputs and not (isinstance(x.value, ast.Name) and x.value.id == "self"):
                return "consult"
            return None
        normal, raised = event_paths(m.node, ev, may_raise=lambda nn: None)
        for seq in sorted(normal):
            r.instance("Schema.%s path %s" % (n, list(seq)))
            # the method runs to completion before anyone can ask for the verdict again: the reset may precede the write
            if "write" in seq and "invalidate" not in seq:
                run.report(r, "%s:Schema.%s:stale-verdict" % (SCHEMA, n), m.where(),
                           "Schema.%s assigns a resolver without resetting self._is_valid afterwards: validate() keeps returning the "
                           "verdict computed before the resolver was (re)assigned" % n)
            elif "write" not in seq and "consult" in seq and "invalidate" not in seq:
                # a registration that looks at the member's resolver and returns without writing (the callable is already in place, ...) still hands the schema a
                # resolver it has to answer for: the member may have received it through another schema sharing the Field /
                # type object, or by direct assignment, after the verdict was computed
                run.report(r, "%s:Schema.%s:returns-without-invalidating" % (SCHEMA, n), m.where(),
                           "Schema.%s can return normally without resetting self._is_valid (path %s): a registration that finds the "
                           "resolver already in place leaves a verdict computed before that resolver was attached" % (n, list(seq)))
    vd = sch.methods.get("validate")
    shapes.require(vd is not None, "C13.I1: Schema.validate not found")
    # path form: with the memo None every execution calls validate_schema(self); with a verdict stored none does
    from .. import boolx as _bx
    memo_ok = True
    for unset in (True, False):
        try:
            _ev, mexits = _bx.walk_under(vd.node, lambda t, unset=unset: unset if t == "self._is_valid is None" else ((not unset) if t == "self._is_valid" else None))
        except ValueError as e:
            raise AnalysisError("C13.I1: %s" % e)
        for kind, st, env in mexits:
            called = any(ast.unparse(c.func).split(".")[-1] == "validate_schema" for c in env.get(_bx.CALLS, ()))
            if kind != "raise" and called != unset:
                memo_ok = False
    r.instance("validate() recomputes exactly when the memo is None: %s" % memo_ok)
    if not memo_ok:
        run.report(r, "%s:Schema.validate:memo" % SCHEMA, vd.where(), "validate() does not recompute when the memo is None")
    inv = sch.methods.get("_invalidate_and_rebuild_caches")
    if inv is None or "self._is_valid = None" not in ast.unparse(inv.node):
        run.report(r, "%s:Schema._invalidate_and_rebuild_caches:memo" % SCHEMA, sch.module.relpath, "cache invalidation does not reset _is_valid")

    # ---- I2 invalidation flag accumulates
    r = run.rule("I2", "a boolean that guards cache invalidation and is assigned inside a loop is accumulated (`x = x or ...`, "
                       "`|=`), not overwritten per iteration; every replacement loop feeds it", 2)
    rep = sch.methods.get("_replace_types_and_directives")
    shapes.require(rep is not None, "C13.I2: _replace_types_and_directives not found")
    run.looked_at(rep)
    from . import c14 as _c14
    flag = _c14.replacement_flag(rep)       # the local assigned True when something was replaced (guard clause or if-block alike)
    shapes.require(any(isinstance(y, ast.Call) and isinstance(y.func, ast.Attribute) and y.func.attr == "_invalidate_and_rebuild_caches"
                       for y in own_nodes(rep.node)), "C13.I2: _replace_types_and_directives no longer rebuilds the caches")
    loops = [x for x in own_nodes(rep.node) if isinstance(x, ast.For)]
    for lp in loops:
        writes_registry = any(isinstance(y, (ast.Assign, ast.Delete)) and any(isinstance(t, ast.Subscript) and ast.unparse(t.value) in ("self.types", "self.directives")
                              for t in (y.targets if isinstance(y, (ast.Assign, ast.Delete)) else [])) for y in ast.walk(lp))
        if not writes_registry:
            continue
        assigns = [y for y in ast.walk(lp) if (isinstance(y, ast.Assign) and ast.unparse(y.targets[0]) == flag) or (isinstance(y, ast.AugAssign) and ast.unparse(y.target) == flag)]
        r.instance("replacement loop `%s` sets %s: %s" % (norm_stmt(lp), flag, [norm_stmt(a) for a in assigns]))
        if not assigns:
            run.report(r, "%s:Schema._replace_types_and_directives:flag-not-fed(%s)" % (SCHEMA, ast.unparse(lp.iter)[:40]), rep.where(lp),
                       "the loop replacing `%s` never sets %s: replacing an element there leaves the caches (and the validation verdict) stale"
                       % (ast.unparse(lp.iter), flag))
        for a in assigns:
            if isinstance(a, ast.AugAssign) and isinstance(a.op, ast.BitOr):
                continue
            if isinstance(a, ast.Assign):
                v = a.value
                if isinstance(v, ast.Constant) and v.value is True:
                    continue
                if isinstance(v, ast.BoolOp) and isinstance(v.op, ast.Or) and any(isinstance(o, ast.Name) and o.id == flag for o in v.values):
                    continue
            run.report(r, "%s:Schema._replace_types_and_directives:flag-overwritten" % SCHEMA, rep.where(a),
                       "`%s` overwrites the flag on every iteration: only the last replaced element decides whether caches are rebuilt" % norm_stmt(a))

    # ---- V8 the three root checks are independent of each other
    check_root_type_table(prog, run, "V8")


def check_root_type_table(prog, run, rule_id):
    from .. import boolx
    r = run.rule(rule_id, "SchemaValidator.validate_root_types decided row by row: for each of the 27 combinations of (query, "
                          "mutation, subscription) being absent / an object type / another kind, every execution records exactly one "
                          "error per offending root (query absent or not an object; mutation / subscription present and not an "
                          "object) — the checks do not shadow one another, all violations are reported together", 27)
    f = prog.get_func("py_gql.schema.validation", "SchemaValidator.validate_root_types")
    run.looked_at(f)
    roots = ("query_type", "mutation_type", "subscription_type")
    n_rows = 0
    for q in ("none", "object", "other"):
        for m in ("none", "object", "other"):
            for s_ in ("none", "object", "other"):
                state = dict(zip(roots, (q, m, s_)))

                def decide(t, state=state):
                    tt = t.replace(" ", "")
                    for root, st in state.items():
                        if "self.schema.%s" % root not in tt:
                            continue
                        if tt == "self.schema.%sisNone" % root:
                            return st == "none"
                        if tt == "self.schema.%sisnotNone" % root:
                            return st != "none"
                        if tt.startswith("isinstance(self.schema.%s," % root):
                            return st == "object"
                        if tt == "self.schema.%s" % root:
                            return st != "none"
                    return None
                try:
                    _ev, exits = boolx.walk_under(f.node, decide)
                except ValueError as e:
                    raise AnalysisError("C13.%s: %s" % (rule_id, e))
                want = (1 if q != "object" else 0) + (1 if m == "other" else 0) + (1 if s_ == "other" else 0)
                n_rows += 1
                r.instance("query=%s mutation=%s subscription=%s: %d error(s) expected on %d execution(s)" % (q, m, s_, want, len(exits)), nontrivial=False)
                for kind, st, env in exits:
                    got = sum(1 for c in env.get(boolx.CALLS, ()) if isinstance(c.func, ast.Attribute) and c.func.attr == "add_error")
                    if kind == "raise" or got != want:
                        run.report(r, "py_gql.schema.validation:SchemaValidator.validate_root_types:row(%s,%s,%s)" % (q, m, s_), f.where(),
                                   "with query %s, mutation %s and subscription %s, validate_root_types records %d error(s) instead of %d: "
                                   "one root's violation hides another's" % (q, m, s_, got, want))
                        break
    r.instance("%d rows decided" % n_rows)
    r.instances += n_rows


def _walk_no_inner_loops(node):
    stack = [node]
    while stack:
        n = stack.pop()
        yield n
        for ch in ast.iter_child_nodes(n):
            if isinstance(ch, (ast.For, ast.While)):
                # still yield the header expressions of the inner loop? no: inner loops are separate instances
                continue
            stack.append(ch)


def check_interface_argument_invariance(prog, run, rule_id):
    """An implementing field takes exactly the argument types the interface field declares."""
    from .. import boolx
    import re
    r = run.rule(rule_id, "SchemaValidator.validate_implementation, the loop over the interface field's arguments decided for (the object field "
                          "has the argument, the two argument types are equal, the object's type is a subtype of the interface's): a "
                          "missing argument and an argument of a different type are each reported on every execution, an equal type on "
                          "none - argument types are invariant (the specification: `must accept the same type`); accepting a subtype "
                          "(`Int!` for `Int`) lets an implementation reject nulls the interface promises to accept", 6)
    sv = prog.get_class(VAL, "SchemaValidator")
    vi = sv.methods.get("validate_implementation")
    if vi is None:
        raise AnalysisError("C13.%s: validate_implementation not found" % rule_id)
    run.looked_at(vi)
    loops = [n for n in own_nodes(vi.node) if isinstance(n, ast.For) and isinstance(n.iter, ast.Attribute) and n.iter.attr == "arguments"
             and any(isinstance(x, ast.Compare) or (isinstance(x, ast.Call) and isinstance(x.func, ast.Attribute) and x.func.attr == "is_subtype")
                     for st in n.body for x in ast.walk(st) if any(isinstance(y, ast.Attribute) and y.attr == "type" for y in ast.walk(x)))]
    if not loops:
        raise AnalysisError("C13.%s: the loop comparing interface and object argument types was not found" % rule_id)
    lp = loops[0]
    body = boolx.body_function(lp.body)
    eq = re.compile(r"^\w+\.type == \w+\.type$")
    sub = re.compile(r"^[\w.]+\.is_subtype\(\w+\.type, \w+\.type\)$")
    absent = re.compile(r"^\w+ is None$")
    bad = []
    for has in (True, False):
        for equal in (True, False):
            for subtype in (True, False):
                if equal and not subtype:
                    continue
                def decide(t, has=has, equal=equal, subtype=subtype):
                    if eq.match(t):
                        return equal
                    if sub.match(t):
                        return subtype
                    if absent.match(t):
                        return not has
                    return None
                try:
                    _ev, exits = boolx.walk_under(body, decide)
                except ValueError as e:
                    raise AnalysisError("C13.%s: %s" % (rule_id, e))
                outcomes = {any(isinstance(c.func, ast.Attribute) and c.func.attr == "add_error" for c in env.get(boolx.CALLS, ())) for k, st, env in exits if k != "raise"}
                want = (not has) or (not equal)
                r.instance("object field has the argument=%s, types equal=%s, subtype=%s -> error recorded %s" % (has, equal, subtype, sorted(outcomes)))
                if outcomes != {want}:
                    bad.append({"has": has, "equal": equal, "subtype": subtype, "error": sorted(outcomes), "expected": want})
    if bad:
        run.report(r, "%s:SchemaValidator.validate_implementation:argument-invariance" % VAL, vi.where(lp),
                   "interface argument types are not compared for equality: %s" % bad[:3], {"rows": bad})


def check_type_name_exemption(prog, run, rule_id):
    """Only the library's own types escape the name check, and they are recognised by identity."""
    from .. import boolx
    import re
    r = run.rule(rule_id, "SchemaValidator.__call__, per registered type: for a type that is neither an introspection type nor a specified "
                          "scalar (both recognised by identity: is_introspection_type(t), `t in SPECIFIED_SCALAR_TYPES`) and whose name is "
                          "not valid, every execution records the name error - no test on the *spelling* of the name (a `__` prefix, a "
                          "reserved-name table) exempts a user type", 1)
    sv = prog.get_class(VAL, "SchemaValidator")
    call = sv.methods.get("__call__")
    if call is None:
        raise AnalysisError("C13.%s: SchemaValidator.__call__ not found" % rule_id)
    run.looked_at(call)
    loops = [n for n in own_nodes(call.node) if isinstance(n, ast.For) and "types" in ast.unparse(n.iter)]
    if len(loops) != 1:
        raise AnalysisError("C13.%s: the loop over the schema's types was not found" % rule_id)
    body = boolx.body_function(loops[0].body)

    def decide(t):
        if re.match(r"^is_introspection_type\(\w+\)$", t):
            return False
        if re.match(r"^\w+ in SPECIFIED_SCALAR_TYPES$", t) or re.match(r"^\w+ in INTROPSPECTION_TYPES$", t):
            return False
        if re.match(r"^_is_valid_name\(\w+\.name\)$", t):
            return False
        return None
    try:
        _ev, exits = boolx.walk_under(body, decide)
    except ValueError as e:
        raise AnalysisError("C13.%s: %s" % (rule_id, e))
    silent = None
    n = 0
    for kind, st, env in exits:
        n += 1
        if not any(isinstance(c.func, ast.Attribute) and c.func.attr == "add_error" for c in env.get(boolx.CALLS, ())):
            silent = {t: v for t, v in env.get(boolx.TESTS, ()) if decide(t) is None and "isinstance" not in t}
            break
    r.instance("user type with an invalid name: %d executions, all record the error: %s" % (n, silent is None))
    if silent is not None:
        run.report(r, "%s:SchemaValidator.__call__:name-exemption" % VAL, call.where(loops[0]),
                   "a user type with an invalid name can pass the name check (when %s): only introspection types and specified scalars, "
                   "recognised by identity, are exempt" % (", ".join("%s=%s" % kv for kv in sorted(silent.items())) or "some other test holds"))
