"""C14 — extending / cloning / transforming schemas keeps everything not targeted."""
import ast

from .. import shapes, boolx
from ..model import AnalysisError, own_nodes, norm_stmt

TYPES = "py_gql.schema.types"
SCHEMA = "py_gql.schema.schema"
RMAP = "py_gql.schema.resolver_map"
HEAL = "py_gql.schema.fix_type_references"
REBUILD_MODULES = ("py_gql.schema.schema_visitor", "py_gql.schema.transforms.camel_case", "py_gql.schema.transforms.visibility",
                   "py_gql.sdl.ast_type_builder", "py_gql.sdl.schema_directives", "py_gql.schema.fix_type_references")
MEMBER_CLASSES = ("Field", "Argument", "InputField", "EnumValue")


def init_params(ci):
    init = ci.find_method("__init__")
    a = init.node.args
    return [x.arg for x in a.args[1:]] + [x.arg for x in a.kwonlyargs]


def rebuild_sites(prog):
    """(function, call, class, source variable, supplied params) for constructor calls K(...) that copy >= 2 attributes
    of one variable."""
    tm = prog.module(TYPES)
    out = []
    for f in prog.all_funcs():
        if f.module.name not in REBUILD_MODULES:
            continue
        for n in own_nodes(f.node):
            if not (isinstance(n, ast.Call) and isinstance(n.func, ast.Name)):
                continue
            r = prog.resolve_name(f.module, n.func.id)
            if not (r and r[0] == "class" and r[1].module is tm and r[1].find_method("__init__") is not None):
                continue
            ci = r[1]
            srcs = {}
            for a in list(n.args) + [k.value for k in n.keywords]:
                for x in ast.walk(a):
                    if isinstance(x, ast.Attribute) and isinstance(x.value, ast.Name):
                        srcs.setdefault(x.value.id, set()).add(x.attr)
            srcs.pop("self", None)
            cand = [(len(v), k) for k, v in srcs.items() if len(v) >= 2]
            # a function taking a K and returning a freshly constructed K is a rebuild site whatever it copies
            same = [a.arg for a in f.node.args.args if a.annotation is not None and ast.unparse(a.annotation).strip("'\"") == ci.name]
            if same and isinstance(getattr(n, "_parent", None), ast.Return):
                cand.append((99, same[0]))
            if not cand:
                continue
            src = max(cand)[1]
            # a source that is an AST definition node (annotated _ast.X) is a build from SDL, not a rebuild of an element
            ann = {a.arg: a.annotation for a in f.node.args.args}
            if src in ann and ann[src] is not None and "_ast." in ast.unparse(ann[src]):
                continue
            params = init_params(ci)
            supplied = set(params[: len(n.args)]) | {k.arg for k in n.keywords if k.arg}
            if any(k.arg is None for k in n.keywords):
                continue  # **kwargs: cannot enumerate
            out.append((f, n, ci, src, supplied, params))
    return out


def check(prog, run):
    from . import c11 as _c11n
    _c11n.check_null_default(prog, run, "N1", prefix="py_gql.schema.transforms", floor=2)   # = C11.N1 for the rebuilding transforms
    check_heal_to_fixpoint(prog, run, "H2")
    # ---- C1 copy-constructor completeness
    r = run.rule("C1", "every site that rebuilds a schema element from an existing one (constructor call copying >= 2 attributes "
                       "of one source object) supplies every constructor parameter: a parameter left to its default is an attribute "
                       "silently dropped (resolver, type resolver, python_name, description, ...)", 12)
    for f, call, ci, src, supplied, params in rebuild_sites(prog):
        run.looked_at(f)
        r.instance("%s: %s(...) from `%s` supplies %s" % (f.qualname, ci.name, src, sorted(supplied)))
        for p in params:
            if p not in supplied:
                run.report(r, "%s:%s:dropped(%s.%s)" % (f.module.name, f.qualname, ci.name, p), f.where(call),
                           "%s rebuilds a %s from `%s` without passing %s=: the rebuilt element loses it" % (f.qualname, ci.name, src, p))

    # ---- C2 each copied parameter comes from the attribute it is stored in
    check_copy_sources(prog, run, "C2")

    # ---- V1 sibling call sites of one hook pass the same attribute
    check_sibling_hook_arguments(prog, run, "V1", ("py_gql.schema.transforms.visibility", "py_gql.schema.transforms.camel_case",
                                                   "py_gql.schema.schema_visitor", "py_gql.schema.fix_type_references"))

    # ---- O1 clone shares what later passes mutate
    r = run.rule("O1", "objects shared between a schema and its clone (members of shallowly copied types: Field, Argument, "
                       "InputField, EnumValue) are never mutated in place by the visitors applied to the clone", 4)
    sch = prog.get_class(SCHEMA, "Schema")
    clone = sch.find_method("clone")
    shapes.require(clone is not None, "C14.O1: Schema.clone not found")
    run.looked_at(clone)
    shallow = any(isinstance(n, ast.Call) and ast.unparse(n.func) == "copy.copy" for n in own_nodes(clone.node))
    deep = any(isinstance(n, ast.Call) and ast.unparse(n.func) == "copy.deepcopy" for n in own_nodes(clone.node))
    tm = prog.module(TYPES)
    own_copy = {c.name for c in tm.classes.values() if "__copy__" in c.methods}
    r.instance("clone uses copy.copy=%s deepcopy=%s; classes defining __copy__: %s" % (shallow, deep, sorted(own_copy)))
    shared = set(MEMBER_CLASSES) if (shallow and not deep and not own_copy) else set()
    if not shallow and not deep:
        raise AnalysisError("C14.O1: Schema.clone copies types in an unrecognised way")
    base = prog.get_class("py_gql.schema.schema_visitor", "SchemaVisitor")
    handler_class = {"on_field": "Field", "on_argument": "Argument", "on_input_field": "InputField", "on_enum_value": "EnumValue"}
    for c in [base] + prog.subclasses(base):
        for h, k in handler_class.items():
            m = c.methods.get(h)
            if m is None:
                continue
            run.looked_at(m)
            # variables that may alias the incoming member: the parameter, or the result of super().on_X(param)
            alias = {m.params[1]}
            for _round in range(4):     # aliases of aliases (named intermediate steps), to a fixpoint
                for n in own_nodes(m.node):
                    if isinstance(n, ast.Assign) and isinstance(n.targets[0], ast.Name):
                        v = n.value
                        if isinstance(v, ast.Call) and isinstance(v.func, ast.Name) and v.func.id == "cast" and len(v.args) == 2:
                            v = v.args[1]
                        if isinstance(v, ast.Name) and v.id in alias:
                            alias.add(n.targets[0].id)
                        if isinstance(v, ast.Call) and isinstance(v.func, ast.Attribute) and isinstance(v.func.value, ast.Call) \
                                and isinstance(v.func.value.func, ast.Name) and v.func.value.func.id == "super" and v.func.attr == h \
                                and v.args and isinstance(v.args[0], ast.Name) and v.args[0].id in alias:
                            alias.add(n.targets[0].id)
            for n in own_nodes(m.node):
                if isinstance(n, ast.Attribute) and isinstance(n.ctx, ast.Store) and isinstance(n.value, ast.Name) and n.value.id in alias:
                    r.instance("%s.%s writes %s.%s" % (c.name, h, k, n.attr))
                    if k in shared:
                        run.report(r, "%s:%s.%s:mutates-shared(%s.%s)" % (c.module.name, c.name, h, k, n.attr), m.where(n),
                                   "%s.%s assigns %s.%s in place; Schema.clone() copies types shallowly, so that %s object is shared "
                                   "with the source schema: transforming a clone alters the original (a second transform of the same "
                                   "source sees healed/removed references)" % (c.name, h, k, n.attr, k))

    # ---- M1 resolver maps and clone transfer everything
    r = run.rule("M1", "merge_resolvers transfers every attribute ResolverMap.__init__ creates; Schema.clone carries every "
                       "Schema slot (constructor, replacement, merge) or the slot is derived state", 8)
    rm = prog.get_class(RMAP, "ResolverMap")
    init = rm.methods["__init__"]
    created = [n.targets[0].attr for n in own_nodes(init.node) if isinstance(n, ast.Assign) and isinstance(n.targets[0], ast.Attribute)]
    mr = rm.methods.get("merge_resolvers")
    shapes.require(mr is not None, "C14.M1: merge_resolvers not found")
    run.looked_at(mr)
    other = mr.params[1]
    read = {n.attr for n in ast.walk(mr.node) if isinstance(n, ast.Attribute) and isinstance(n.value, ast.Name) and n.value.id == other}
    for a in created:
        r.instance("merge_resolvers reads other.%s: %s" % (a, a in read))
        if a not in read:
            run.report(r, "%s:ResolverMap.merge_resolvers:not-merged(%s)" % (RMAP, a), mr.where(),
                       "merge_resolvers never reads other.%s: it is lost when resolver maps are merged (and by Schema.clone)" % a)
    derived = {"_possible_types", "_is_valid", "_literal_types_cache", "implementations"}
    # a slot that every construction starts at a constant (a transient flag, an empty memo) holds nothing of the source to carry
    for k_ in [sch] + [b for b in sch.mro()[1:] if hasattr(b, "methods")]:
        for mname_ in ("__init__", "_invalidate_and_rebuild_caches"):
            mi_ = k_.methods.get(mname_)
            if mi_ is None:
                continue
            for n_ in own_nodes(mi_.node):
                if isinstance(n_, (ast.Assign, ast.AnnAssign)) and n_.value is not None and isinstance(n_.value, (ast.Constant, ast.Dict, ast.List, ast.Set)) \
                        and not getattr(n_.value, "keys", None) and not getattr(n_.value, "elts", None):
                    for t_ in (n_.targets if isinstance(n_, ast.Assign) else [n_.target]):
                        if isinstance(t_, ast.Attribute) and isinstance(t_.value, ast.Name) and t_.value.id == "self":
                            derived.add(t_.attr)
    slots = sch.slots() or []
    ctor_kw = set()
    for n in own_nodes(clone.node):
        if isinstance(n, ast.Call) and isinstance(n.func, ast.Name) and n.func.id == "Schema":
            ctor_kw = {k.arg for k in n.keywords}
    replaced = set()
    from ..canon import Canon as _CanonM
    _ccn = _CanonM(clone.node)
    for n in own_nodes(clone.node):
        if isinstance(n, ast.Call) and _ccn.func_text(n).endswith("._replace_types_and_directives"):      # a bound method named first included
            replaced = {k.arg for k in n.keywords}
    merges = any(isinstance(n, ast.Call) and isinstance(n.func, ast.Attribute) and n.func.attr == "merge_resolvers" for n in own_nodes(clone.node))
    for s in slots:
        how = "constructor" if s in ctor_kw else "replacement" if s in replaced else "merge_resolvers" if (merges and s in created) else "derived" if s in derived else None
        r.instance("Schema slot %s carried by clone through %s" % (s, how))
        if how is None:
            run.report(r, "%s:Schema.clone:slot-not-carried(%s)" % (SCHEMA, s), clone.where(), "Schema.clone does not carry the slot %s" % s)

    # ---- M2 the clone's registries hold every name the source's registries hold
    r2 = run.rule("M2", "Schema.clone: for the type and the directive registry alike, either the clone is constructed with the "
                        "source's entries (`Schema(..., types=<from self.types>, directives=<from self.directives>)`) or "
                        "_replace_types_and_directives stores an entry on the executions where the name is not registered yet "
                        "(the KeyError handler of its lookup); otherwise every type that is not reachable from the root types - an "
                        "object type known only as the implementer of an interface, a type passed through `types=` - is missing "
                        "from the clone and from every clone-based transform", 2)
    rep = prog.get_func(SCHEMA, "Schema._replace_types_and_directives")
    run.looked_at(rep)
    ctor = [n for n in own_nodes(clone.node) if isinstance(n, ast.Call) and isinstance(n.func, ast.Name) and n.func.id == "Schema"]
    shapes.require(len(ctor) == 1, "C14.M2: Schema.clone no longer constructs the clone with one Schema(...) call")
    for kind in ("types", "directives"):
        loops = [n for n in own_nodes(rep.node) if isinstance(n, ast.For) and any(
            isinstance(x, ast.Name) and x.id == kind for x in ast.walk(n.iter))]
        shapes.require(len(loops) == 1, "C14.M2: replacement loop over `%s` not found" % kind)
        try:
            _ev, lexits = boolx.walk_under(boolx.body_function(loops[0].body), lambda t: (False if t.replace(" ", "").endswith("isNone") else None))
        except ValueError as e:
            raise AnalysisError("C14.M2: %s" % e)
        absent = [env for k_, st_, env in lexits if env.get(boolx.HANDLERS)]
        shapes.require(bool(absent), "C14.M2: no execution of the `%s` loop enters a KeyError handler" % kind)
        stores_when_absent = all(any(isinstance(x, ast.Assign) and any(isinstance(t, ast.Subscript) and ast.unparse(t.value) == "self.%s" % kind for t in x.targets)
                                     for x in env.get(boolx.STMTS, ())) for env in absent)
        from ..canon import Canon as _Canon
        kw = [_Canon(clone.node).expr(k.value) for k in ctor[0].keywords if k.arg == kind]      # a local named first stands for its value
        for i_, v_ in enumerate(kw):
            if isinstance(v_, ast.Name):
                defs_ = [x.value for x in own_nodes(clone.node) if isinstance(x, ast.Assign) and len(x.targets) == 1 and isinstance(x.targets[0], ast.Name) and x.targets[0].id == v_.id]
                if len(defs_) == 1:
                    kw[i_] = defs_[0]
        seeded = bool(kw) and any(isinstance(x, ast.Attribute) and x.attr == kind and isinstance(x.value, ast.Name) and x.value.id == "self" for x in ast.walk(kw[0]))
        r2.instance("%s: replacement stores unregistered names: %s; clone constructed with self.%s: %s" % (kind, stores_when_absent, kind, seeded))
        if not (stores_when_absent or seeded):
            run.report(r2, "%s:Schema.clone:registry-not-carried(%s)" % (SCHEMA, kind), clone.where(ctor[0]),
                       "the clone is built from the root types only and _replace_types_and_directives replaces registered %s but never adds "
                       "one: a %s entry that the root types do not reach is missing from the clone (e.g. `interface Node  type A "
                       "implements Node  type Query { node: Node }`: the clone has no A and Node has no possible types)" % (kind, kind))

    # ---- H1 every type reference has a healing site
    r = run.rule("H1", "every attribute that holds type references (Field.type, Argument.type, InputField.type, "
                       "ObjectType.interfaces, UnionType.types, the three root types) is re-resolved against the registry by the "
                       "healing visitor / _replace_types_and_directives", 8)
    healer = prog.get_class(HEAL, "_HealSchemaVisitor")
    want = {"on_field": "type", "on_argument": "type", "on_input_field": "type", "on_object": "interfaces", "on_union": "types"}
    for h, attr in want.items():
        m = healer.methods.get(h)
        ok = False
        if m is not None:
            run.looked_at(m)
            for n in own_nodes(m.node):
                if isinstance(n, ast.Assign) and isinstance(n.targets[0], ast.Attribute) and n.targets[0].attr == attr:
                    if any(isinstance(x, ast.Attribute) and x.attr == "_healed" for x in ast.walk(m.node)):
                        ok = True
        r.instance("healer %s re-resolves .%s: %s" % (h, attr, ok))
        if not ok:
            run.report(r, "%s:_HealSchemaVisitor:unhealed(%s.%s)" % (HEAL, h, attr), healer.module.relpath,
                       "%s does not re-resolve .%s against the registry: a replaced type stays referenced through it" % (h, attr))
        elif m is not None:
            # path form: every execution that returns an element (not None) has assigned .attr from a _healed result
            try:
                _ev, exits = boolx.walk_under(m.node, lambda t: None)
            except ValueError as e:
                raise AnalysisError("C14.H1: %s" % e)
            for kind, st, env in exits:
                if kind != "return" or st.value is None or (isinstance(st.value, ast.Constant) and st.value.value is None):
                    continue
                healed_names = set()
                done = False
                for x in env.get(boolx.STMTS, ()):
                    if isinstance(x, ast.Assign):
                        from_heal = any(isinstance(y, ast.Attribute) and y.attr == "_healed" for y in ast.walk(x.value)) or \
                            (isinstance(x.value, ast.Name) and x.value.id in healed_names)
                        for t in x.targets:
                            if isinstance(t, ast.Name) and from_heal:
                                healed_names.add(t.id)
                            if isinstance(t, ast.Attribute) and t.attr == attr and from_heal:
                                done = True
                if not done:
                    cond = ", ".join("%s=%s" % kv for kv in sorted(env.items()) if kv[0] not in boolx.META)
                    run.report(r, "%s:_HealSchemaVisitor.%s:path-skips-healing(%s)" % (HEAL, h, attr), m.where(st),
                               "%s can return the element without assigning .%s from the registry lookup (when %s): a type replaced "
                               "under the same name stays referenced through it, so removed members remain reachable" % (h, attr, cond or "always"))
                    break
    hd = healer.methods.get("_healed")
    shapes.require(hd is not None, "C14.H1: _healed not found")
    txt = ast.unparse(hd.node)
    r.instance("_healed looks names up in schema.types and rebuilds wrappers")
    if "self._schema.types.get(" not in txt or "NonNullType(" not in txt or "ListType(" not in txt:
        run.report(r, "%s:_HealSchemaVisitor._healed:shape" % HEAL, hd.where(), "_healed does not resolve through the registry / rebuild wrappers")
    rep = sch.find_method("_replace_types_and_directives")
    # values assigned to the three roots: direct `self.<root> = V`, or `setattr(self, <var>, V)` in a loop over the root names
    root_values = {}
    for n in own_nodes(rep.node):
        if isinstance(n, ast.Assign) and isinstance(n.targets[0], ast.Attribute) and ast.unparse(n.targets[0].value) == "self":
            root_values.setdefault(n.targets[0].attr, []).append((n, n.value))
        if isinstance(n, ast.Call) and isinstance(n.func, ast.Name) and n.func.id == "setattr" and len(n.args) == 3 and ast.unparse(n.args[0]) == "self" \
                and isinstance(n.args[1], ast.Name):
            cur = n
            while getattr(cur, "_parent", None) is not None and cur is not rep.node:
                par = cur._parent
                if isinstance(par, ast.For) and isinstance(par.target, ast.Name) and par.target.id == n.args[1].id and isinstance(par.iter, (ast.Tuple, ast.List)):
                    for el in par.iter.elts:
                        if isinstance(el, ast.Constant) and isinstance(el.value, str):
                            root_values.setdefault(el.value, []).append((n, n.args[2]))
                cur = par

    def _registry_lookup_with_none(site, v):
        """`<registry>.get(<name>)` (None when the type is gone), not guarded by a condition that keeps the old value otherwise."""
        has_get = any(isinstance(x, ast.Call) and isinstance(x.func, ast.Attribute) and x.func.attr == "get" and "types" in ast.unparse(x.func.value) for x in ast.walk(v))
        if not has_get:
            return False
        cur = site
        while getattr(cur, "_parent", None) is not None and cur is not rep.node:
            par = cur._parent
            if isinstance(par, ast.If) and any(cur is b for b in par.body) and "types" in ast.unparse(par.test):
                return False   # assignment only when the name is still registered: the removal case keeps the stale root
            cur = par
        return True
    for root in ("query_type", "mutation_type", "subscription_type"):
        ok = any(_registry_lookup_with_none(site, v) for site, v in root_values.get(root, []))
        r.instance("root %s re-read from the registry: %s" % (root, ok))
        if not ok:
            run.report(r, "%s:Schema._replace_types_and_directives:root(%s)" % (SCHEMA, root), rep.where(), "%s is not re-read from the registry after replacement" % root)

    # ---- T1 registry conservation (shared with C11)
    from . import c11
    c11.registry_conservation(prog, run, run.rule("T1", c11.T1_TEXT, 2))

    # ---- A1 source collections are copied before being changed
    from .. import aliasmut
    aliasmut.check(prog, run, "A1", ["py_gql.sdl.ast_type_builder", "py_gql.sdl.schema_from_ast", "py_gql.schema"], 3,
                   "the schema an extension or transform started from would be modified (and left inconsistent with its lookup tables)")

    # ---- U1 a changed member list is never dropped
    ru = run.rule("U1", "schema visitors (schema_visitor.py, fix_type_references.py, transforms/**): wherever a method computes the updated "
                        "members of an element (`X = map_and_filter(hook, element.members)`), then on every execution on which X differs "
                        "from element.members (whatever else is true of X: empty, shorter, same length) X is used - handed to the "
                        "constructor call that is returned, or stored into an attribute; an execution that returns without using it "
                        "drops the change (a directive whose last argument was removed keeps it)", 9)
    for f in prog.all_funcs():
        if not (f.module.name in ("py_gql.schema.schema_visitor", "py_gql.schema.fix_type_references") or f.module.name.startswith("py_gql.schema.transforms")):
            continue
        if isinstance(f.node, ast.Lambda):
            continue
        for a in own_nodes(f.node):
            if not (isinstance(a, ast.Assign) and len(a.targets) == 1 and isinstance(a.targets[0], ast.Name) and isinstance(a.value, ast.Call)
                    and isinstance(a.value.func, ast.Name) and a.value.func.id == "map_and_filter" and len(a.value.args) == 2
                    and isinstance(a.value.args[1], ast.Attribute)):
                continue
            X, orig = a.targets[0].id, " ".join(ast.unparse(a.value.args[1]).split())

            def decide(t, X=X, orig=orig):
                tt = " ".join(t.split())
                if tt in ("%s == %s" % (X, orig), "%s == %s" % (orig, X), "%s is %s" % (X, orig), "%s is %s" % (orig, X)):
                    return False            # the updated list differs from the original one
                return None
            try:
                _ev, exits = boolx.walk_under(f.node, decide)
            except ValueError as e:
                raise AnalysisError("C14.U1: %s: %s" % (f.qualname, e))
            dropped = None
            n_ex = 0
            for kind, st, env in exits:
                if kind == "raise":
                    continue
                stmts = list(env.get(boolx.STMTS, ()))
                if not any(x is a for x in stmts):
                    continue
                n_ex += 1
                later = stmts[[i for i, x in enumerate(stmts) if x is a][-1] + 1:]
                used = False
                for x in later:
                    names = lambda e: any(isinstance(y, ast.Name) and y.id == X for y in ast.walk(e))   # noqa: E731
                    if isinstance(x, ast.Assign) and any(isinstance(t, (ast.Attribute, ast.Subscript)) for t in x.targets) and names(x.value):
                        used = True
                    elif isinstance(x, ast.Return) and x.value is not None and any(isinstance(c, ast.Call) and names(c) for c in ast.walk(x.value)):
                        used = True
                    elif isinstance(x, (ast.Assign, ast.Expr)) and any(isinstance(c, ast.Call) and names(c) for c in ast.walk(x.value)):
                        used = True
                if not used:
                    dropped = st
            ru.instance("%s: `%s = map_and_filter(.., %s)` used on all %d executions where it differs: %s" % (f.qualname, X, orig, n_ex, dropped is None))
            if dropped is not None:
                run.report(ru, "%s:%s:change-dropped(%s)" % (f.module.name, f.qualname, orig), f.where(dropped) if dropped is not None else f.where(a),
                           "an execution on which `%s` differs from `%s` returns without using it: the decision to rebuild depends on "
                           "something else than 'changed' (e.g. the emptiness of the new list), so removing the last member leaves the "
                           "element as it was - still referring to what was removed" % (X, orig))

    # ---- W1 construction-time state is written into the schema before the traversal, never after it
    from ..cfg import event_paths
    r = run.rule("W1", "schema visitors (classes with on_schema in the anchored modules): a write of construction-time state (`self.…`) "
                       "into the schema's registries (`<schema>.directives` / `<schema>.types`: update / item store) happens before the "
                       "inherited traversal `super().on_schema(…)` on every path, never after it: the traversal replaces rebuilt "
                       "elements in those registries, and a later write-back of the objects captured at construction undoes that", 1)
    n_sites = 0
    for c in prog.all_classes():
        m = c.methods.get("on_schema")
        if m is None or not c.module.name.startswith("py_gql."):
            continue

        # locals whose content derives from the visitor's own state (fixpoint over assignments, loops and container fills)
        own = {"self"}
        for _round in range(6):
            before = len(own)
            for x in own_nodes(m.node):
                def mentions(e):
                    return any(isinstance(y, ast.Name) and y.id in own for y in ast.walk(e))
                if isinstance(x, ast.Assign) and mentions(x.value):
                    for t in x.targets:
                        base = t
                        while isinstance(base, (ast.Subscript, ast.Attribute)):
                            base = base.value
                        if isinstance(base, ast.Name) and not (isinstance(t, ast.Attribute) or (isinstance(t, ast.Subscript) and isinstance(t.value, ast.Attribute))):
                            own.add(base.id)
                        for y in ast.walk(t):
                            if isinstance(y, ast.Name) and isinstance(y.ctx, ast.Store):
                                own.add(y.id)
                elif isinstance(x, (ast.For, ast.AsyncFor)) and mentions(x.iter):
                    own |= {y.id for y in ast.walk(x.target) if isinstance(y, ast.Name)}
                elif isinstance(x, ast.Call) and isinstance(x.func, ast.Attribute) and x.func.attr in ("append", "add", "update", "extend", "setdefault") \
                        and isinstance(x.func.value, ast.Name) and any(mentions(a) for a in x.args):
                    own.add(x.func.value.id)
            if len(own) == before:
                break
        own.discard(m.params[1] if len(m.params) > 1 else "")      # the schema being visited is not construction-time state

        def from_own(e, own=own):
            return any(isinstance(y, ast.Name) and y.id in own for y in ast.walk(e))

        def ev(n, from_own=from_own):
            if isinstance(n, ast.Call) and isinstance(n.func, ast.Attribute):
                f = n.func
                if f.attr == "on_schema" and isinstance(f.value, ast.Call) and isinstance(f.value.func, ast.Name) and f.value.func.id == "super":
                    return "traverse"
                if f.attr in ("update", "setdefault") and isinstance(f.value, ast.Attribute) and f.value.attr in ("directives", "types") \
                        and any(from_own(a) for a in n.args):
                    return "write"
            if isinstance(n, ast.Assign) and any(isinstance(t, ast.Subscript) and isinstance(t.value, ast.Attribute) and t.value.attr in ("directives", "types")
                                                 for t in n.targets) and from_own(n.value):
                return "write"
            return None
        if not any(ev(n) == "write" for n in own_nodes(m.node)):
            continue
        n_sites += 1
        normal, raised = event_paths(m.node, ev)
        for seq in sorted(normal | raised):
            core = [e for e in seq if e in ("write", "traverse")]
            r.instance("%s.on_schema path %s" % (c.name, core))
            if "traverse" in core and "write" in core[core.index("traverse"):]:
                run.report(r, "%s:%s.on_schema:write-after-traversal" % (c.module.name, c.name), m.where(),
                           "%s.on_schema writes construction-time state into the schema's registry after super().on_schema(...) has "
                           "traversed it: elements the traversal rebuilt (an argument removed by a directive, a type healed away) are "
                           "overwritten with the stale objects captured when the visitor was created" % c.name)
                break
    if not n_sites:
        raise AnalysisError("C14.W1: no on_schema writing construction-time state into a registry was found")


def param_attributes(ci):
    """constructor parameter -> raw names of the attributes __init__ (of the class or the first base defining one) stores it
    in (`self._default_value = default_value`; in `self.python_name = python_name or name` the first parameter is the one
    stored, the others are fall-backs)."""
    out = {}
    for c in ci.mro():
        init = c.methods.get("__init__") if hasattr(c, "methods") else None
        if init is None:
            continue
        ps = {x.arg for x in init.node.args.args[1:]} | {x.arg for x in init.node.args.kwonlyargs}
        for n in ast.walk(init.node):
            if isinstance(n, (ast.Assign, ast.AnnAssign)) and n.value is not None:
                for t in (n.targets if isinstance(n, ast.Assign) else [n.target]):
                    if isinstance(t, ast.Attribute) and isinstance(t.value, ast.Name) and t.value.id == "self":
                        names = [x.id for x in ast.walk(n.value) if isinstance(x, ast.Name) and x.id in ps]
                        order = sorted(set(names), key=names.index)
                        if order:
                            out.setdefault(order[0], set()).add(t.attr)
        break
    return out


def exposed_attributes(ci, attr):
    """raw attributes of self that reading `obj.<attr>` looks at: the attribute itself, or what its property getter reads"""
    m = ci.find_method(attr)
    if m is None or not any(ast.unparse(d).split(".")[-1] in ("property", "cached_property", "setter", "getter") for d in m.node.decorator_list):
        return {attr}
    # (when a setter exists the model keeps the last definition of the name: getter and setter touch the same attributes)
    return {x.attr for x in ast.walk(m.node) if isinstance(x, ast.Attribute) and isinstance(x.value, ast.Name) and x.value.id == "self"} | {attr}


def check_copy_sources(prog, run, rule_id):
    r = run.rule(rule_id, "every site that rebuilds a schema element from an existing one: a constructor parameter fed directly from an "
                          "attribute of the source object reads the attribute that parameter is stored in (`python_name=src.python_name`, "
                          "`default_value=src._default_value`, `args=src.arguments` through the property over `_source_args`), not "
                          "another one — `python_name=src.name` makes the rebuilt element deliver its value to resolvers under a "
                          "different key", 12)
    for f, call, ci, src, supplied, params in rebuild_sites(prog):
        stored = param_attributes(ci)
        given = list(zip(params, call.args)) + [(k.arg, k.value) for k in call.keywords if k.arg]
        for pname, v in given:
            if not (isinstance(v, ast.Attribute) and isinstance(v.value, ast.Name) and v.value.id == src):
                continue
            want = stored.get(pname)
            if not want:
                continue
            got = exposed_attributes(ci, v.attr)
            r.instance("%s: %s(%s=%s.%s)" % (f.qualname, ci.name, pname, src, v.attr), nontrivial=False)
            if not (got & want):
                run.report(r, "%s:%s:copied-from-other-attribute(%s.%s<-%s)" % (f.module.name, f.qualname, ci.name, pname, v.attr), f.where(v),
                           "%s rebuilds a %s with %s=%s.%s, but that parameter is stored as %s: the rebuilt element carries another "
                           "attribute's value there" % (f.qualname, ci.name, pname, src, v.attr, "/".join(sorted(want))))
    r.instance("rebuild sites scanned")


def check_sibling_hook_arguments(prog, run, rule_id, modules):
    r = run.rule(rule_id, "schema transforms: the call sites of one predicate hook of a class (`self.is_field_visible(...)`, ...) agree, "
                          "position by position, on which attribute of their subject they pass (`.name` everywhere): a site passing "
                          "`.python_name` where its siblings pass `.name` asks the user's predicate about a different string, so the "
                          "element is hidden on objects and stays visible on interfaces", 1)
    n = 0
    for c in prog.all_classes():
        if c.module.name not in modules:
            continue
        sites = {}
        for m in c.methods.values():
            for x in ast.walk(m.node):       # nested helper functions included (`_filter_field` closures)
                if isinstance(x, ast.Call) and isinstance(x.func, ast.Attribute) and isinstance(x.func.value, ast.Name) and x.func.value.id == "self" \
                        and c.find_method(x.func.attr) is not None and x.args:
                    sites.setdefault(x.func.attr, []).append((m, x))
        for hook, calls in sorted(sites.items()):
            if len(calls) < 2:
                continue
            width = min(len(x.args) for _m, x in calls)
            for i in range(width):
                attrs = {}
                for m, x in calls:
                    a = x.args[i]
                    if isinstance(a, ast.Attribute) and isinstance(a.value, ast.Name):
                        attrs.setdefault(a.attr, []).append((m, x))
                if not attrs:
                    continue
                n += 1
                r.instance("%s.%s argument %d: %s" % (c.name, hook, i, {k: len(v) for k, v in sorted(attrs.items())}))
                if len(attrs) > 1:
                    major = max(attrs, key=lambda k: (len(attrs[k]), k == "name"))
                    for k, lst in sorted(attrs.items()):
                        if k == major:
                            continue
                        for m, x in lst:
                            run.report(r, "%s:%s.%s:hook-argument(%s:%d:%s)" % (c.module.name, c.name, m.name, hook, i, k), m.where(x),
                                       "%s.%s calls self.%s with `.%s` in position %d where the other call sites pass `.%s`: the hook is "
                                       "asked about a different attribute of the same kind of element" % (c.name, m.name, hook, k, i, major))
    if not n:
        raise AnalysisError("C14.%s: no predicate hook with two call sites found" % rule_id)


def check_heal_to_fixpoint(prog, run, rule_id):
    """Whenever a replacement changed the registries, the references are healed - the nested replacements included."""
    from .. import boolx
    r = run.rule(rule_id, "Schema._replace_types_and_directives: on every execution on which something was replaced (the flag guarding "
                          "_invalidate_and_rebuild_caches is set) fix_type_references(self) is called - no other state gates it. The healing "
                          "traversal registers the types it rebuilds through this very method, and each such registration has to heal "
                          "again: a type rebuilt because a member lost its type is itself referenced from elsewhere, and those references "
                          "are only re-pointed by the next traversal (the recursion ends when nothing is replaced)", 1)
    rep = prog.get_func(SCHEMA, "Schema._replace_types_and_directives")
    run.looked_at(rep)
    flag = replacement_flag(rep)
    calls = [n for n in own_nodes(rep.node) if isinstance(n, ast.Call) and ((isinstance(n.func, ast.Name) and n.func.id == "fix_type_references")
                                                                           or (isinstance(n.func, ast.Attribute) and n.func.attr == "fix_type_references"))]
    if not calls:
        run.report(r, "%s:Schema._replace_types_and_directives:never-heals" % SCHEMA, rep.where(), "_replace_types_and_directives never calls fix_type_references")
        return
    for call in calls:
        # the conditions under which the call is reached: enclosing ifs, and the guard clauses that precede it at each level
        conds = []
        cur, child = getattr(call, "_parent", None), call
        while cur is not None and cur is not rep.node:
            if isinstance(cur, ast.If):
                conds.append(cur.test)
            for field in ("body", "orelse"):
                blk = getattr(cur, field, None)
                if isinstance(blk, list) and any(child is st for st in blk):
                    for st in blk[:blk.index(child)]:
                        if isinstance(st, ast.If) and st.body and isinstance(st.body[-1], (ast.Return, ast.Raise, ast.Continue, ast.Break)) and not st.orelse:
                            conds.append(st.test)
            child, cur = cur, getattr(cur, "_parent", None)
        for st in rep.node.body[:rep.node.body.index(child)] if child in rep.node.body else []:
            if isinstance(st, ast.If) and st.body and isinstance(st.body[-1], ast.Return) and not st.orelse:
                conds.append(st.test)
        other = sorted({" ".join(ast.unparse(x).split()) for c in conds for x in ast.walk(c)
                        if (isinstance(x, ast.Name) and x.id != flag and x.id not in ("None", "True", "False"))
                        or (isinstance(x, ast.Attribute) and not isinstance(getattr(x, "_parent", None), ast.Attribute))})
        r.instance("fix_type_references reached under %s" % ([" ".join(ast.unparse(c).split()) for c in conds] or ["<always>"]))
        if other:
            run.report(r, "%s:Schema._replace_types_and_directives:healing-gated" % SCHEMA, rep.where(call),
                       "fix_type_references is reached only when %s also allows it (besides the replacement flag `%s`): the registrations the "
                       "healing traversal makes are not healed in turn, and references to a rebuilt type keep pointing at the old object"
                       % (", ".join(other), flag))


def replacement_flag(rep):
    """the local of _replace_types_and_directives that records that something was replaced: the one assigned `True`"""
    names = sorted({t.id for n in own_nodes(rep.node) if isinstance(n, ast.Assign) and isinstance(n.value, ast.Constant) and n.value.value is True
                    for t in n.targets if isinstance(t, ast.Name)})
    if len(names) != 1:
        raise AnalysisError("C14: the replacement flag of _replace_types_and_directives was not found (%s)" % names)
    return names[0]
