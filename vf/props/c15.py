"""C15 — introspection reports exactly the schema."""
import ast

from .. import shapes, excflow
from ..model import AnalysisError, own_nodes, norm_stmt

INTRO = "py_gql.schema.introspection"
PARSER = "py_gql.lang.parser"
WRAP = "py_gql.execution.wrappers"
TYPES = "py_gql.schema.types"

META_CLASSES = {
    "__Field__": ["Field"], "__InputValue__": ["Argument", "InputField"], "__EnumValue__": ["EnumValue"],
    "__Directive__": ["Directive"], "__Schema__": ["Schema"],
}
SPEC_TYPE_KINDS = {"SCALAR", "OBJECT", "INTERFACE", "UNION", "ENUM", "INPUT_OBJECT", "LIST", "NON_NULL"}


def _enum_names(expr):
    names = []
    for n in ast.walk(expr):
        if isinstance(n, ast.Call) and isinstance(n.func, ast.Name) and n.func.id == "EnumValue" and n.args and isinstance(n.args[0], ast.Constant):
            names.append(n.args[0].value)
    return names


def _class_attrs(prog, cname):
    """Attribute / property names available on instances of a schema class."""
    ci = None
    for modname in (TYPES, "py_gql.schema.schema", "py_gql.schema._types"):
        m = prog.module(modname)
        if cname in m.classes:
            ci = m.classes[cname]
    if ci is None:
        raise AnalysisError("class %s not found" % cname)
    out = set()
    for c in ci.mro():
        out.update(c.methods)
        out.update(c.attrs)
        sl = c.attrs.get("__slots__")
        for m in c.methods.values():
            for n in ast.walk(m.node):
                if isinstance(n, ast.Attribute) and isinstance(n.ctx, ast.Store) and isinstance(n.value, ast.Name) and n.value.id == "self":
                    out.add(n.attr)
    sl = ci.slots()
    if sl:
        out.update(sl)
    return out


def check(prog, run):
    check_type_map_closure(prog, run, "T11")
    check_introspection_query_depth(prog, run, "T10")
    m = prog.module(INTRO)

    # ---- T1 enums mirror their tables
    r = run.rule("T1", "__DirectiveLocation values = parser.DIRECTIVE_LOCATIONS; __TypeKind values = image of _resolve_type_kind "
                       "= the specification's eight kinds", 27)
    dl = m.assigns.get("__DirectiveLocation__")
    tk = m.assigns.get("__TypeKind__")
    shapes.require(dl and tk, "C15.T1: introspection enums not found")
    loc_names = set(_enum_names(dl[-1]))
    locations = set(prog.fold_name(PARSER, "DIRECTIVE_LOCATIONS"))
    for l in sorted(loc_names | locations):
        r.instance("directive location %s" % l)
        if l not in loc_names:
            run.report(r, "%s:__DirectiveLocation__:missing(%s)" % (INTRO, l), "src/py_gql/schema/introspection.py",
                       "directive location %s is accepted by the parser and Directive but is not a value of __DirectiveLocation: "
                       "introspecting a directive declared `on %s` fails to serialise its locations" % (l, l))
        if l not in locations:
            run.report(r, "%s:__DirectiveLocation__:extra(%s)" % (INTRO, l), "src/py_gql/schema/introspection.py", "%s is not a directive location" % l)
    kind_names = set(_enum_names(tk[-1]))
    rk = prog.get_func(INTRO, "_resolve_type_kind")
    # kind resolver dispatch order: subclasses before base (each class tested once)
    tested = [nm for n in own_nodes(rk.node) if isinstance(n, ast.If) for names, _ in shapes.class_tests(n.test, rk.params[0]) for nm in names]
    # path form: what the resolver returns when its argument is exactly a C (independent of elif-vs-early-return and test order)
    from .. import dispatch
    hier = dispatch.Hierarchy(prog)
    pairs = {}
    from .. import pathfeas, boolx as _bxk
    image = set()
    for c in ("ScalarType", "ObjectType", "InterfaceType", "UnionType", "EnumType", "InputObjectType", "ListType", "NonNullType"):
        got = set()
        try:
            _evk, kexits = _bxk.walk_under(rk.node, pathfeas.decide_with_locals(hier, rk.params[0], c))
        except ValueError as e:
            raise AnalysisError("C15.T1: %s" % e)
        for kind, st, env in kexits:
            v = None
            if kind == "return" and st.value is not None:
                # the returned expression with this execution's locals substituted and its conditional parts decided by the atoms
                atoms = {a: b for a, b in env.items() if a not in _bxk.META}
                v = _bxk.path_value(env.get(_bxk.STMTS, ()), st, _bxk.path_subst(st.value, _bxk.path_env(env.get(_bxk.STMTS, ()), st)), atoms)
            got.add(v.value if isinstance(v, ast.Constant) else ("<%s>" % kind))
        image |= {g for g in got if isinstance(g, str) and not g.startswith("<")}
        if len(got) == 1:
            pairs[c] = got.pop()
    for k in sorted(kind_names | image | SPEC_TYPE_KINDS):
        r.instance("type kind %s" % k)
        if not (k in kind_names and k in image and k in SPEC_TYPE_KINDS):
            run.report(r, "%s:__TypeKind__:mismatch(%s)" % (INTRO, k), rk.where(),
                       "type kind %s: in __TypeKind=%s, produced by _resolve_type_kind=%s, in the specification=%s" % (k, k in kind_names, k in image, k in SPEC_TYPE_KINDS))
    want = {"ScalarType": "SCALAR", "ObjectType": "OBJECT", "InterfaceType": "INTERFACE", "UnionType": "UNION", "EnumType": "ENUM",
            "InputObjectType": "INPUT_OBJECT", "ListType": "LIST", "NonNullType": "NON_NULL"}
    for c, k in want.items():
        r.instance("%s -> %s" % (c, pairs.get(c)))
        if pairs.get(c) != k:
            run.report(r, "%s:_resolve_type_kind:kind(%s)" % (INTRO, c), rk.where(), "%s is reported as kind %s (expected %s)" % (c, pairs.get(c), k))

    # ---- T2 default-resolved meta fields name existing attributes
    r = run.rule("T2", "every meta field without resolver resolves (python_name or name) to an attribute/property that exists on "
                       "every class the meta type describes", 15)
    for meta, classes in META_CLASSES.items():
        e = m.assigns.get(meta)
        shapes.require(e, "C15.T2: %s not found" % meta)
        for n in ast.walk(e[-1]):
            if isinstance(n, ast.Call) and isinstance(n.func, ast.Name) and n.func.id == "Field" and n.args and isinstance(n.args[0], ast.Constant):
                kws = {k.arg: k.value for k in n.keywords}
                if "resolver" in kws:
                    continue
                attr = kws["python_name"].value if "python_name" in kws and isinstance(kws["python_name"], ast.Constant) else n.args[0].value
                for c in classes:
                    attrs = _class_attrs(prog, c)
                    r.instance("%s.%s -> %s.%s" % (meta, n.args[0].value, c, attr))
                    if attr not in attrs:
                        run.report(r, "%s:%s:missing-attribute(%s.%s)" % (INTRO, meta, c, attr), "src/py_gql/schema/introspection.py",
                                   "meta field %s.%s is resolved by default from attribute %r, which %s does not have: introspection returns null/raises for it"
                                   % (meta, n.args[0].value, attr, c))

    # ---- T3 default value formatting
    r = run.rule("T3", "_format_default_value renders defaults through print_ast(ast_node_from_value(value, declared type)), like "
                       "the SDL printer, never through json.dumps / string interpolation", 1)
    fd = prog.get_func(INTRO, "_format_default_value")
    run.looked_at(fd)
    ok = False
    for n in ast.walk(fd.node):
        if isinstance(n, ast.Call) and isinstance(n.func, ast.Name) and n.func.id == "print_ast" and n.args and isinstance(n.args[0], ast.Call) \
                and isinstance(n.args[0].func, ast.Name) and n.args[0].func.id == "ast_node_from_value":
            inner = n.args[0]
            if len(inner.args) == 2 and ast.unparse(inner.args[0]).endswith("default_value") and ast.unparse(inner.args[1]).endswith(".type"):
                ok = True
    bad = [ast.unparse(n.func) for n in ast.walk(fd.node) if isinstance(n, ast.Call) and ast.unparse(n.func) in ("json.dumps", "repr", "str")]
    interp = [n for n in ast.walk(fd.node) if isinstance(n, ast.BinOp) and isinstance(n.op, ast.Mod) and isinstance(n.left, ast.Constant)]
    r.instance("value->AST->printer: %s; other renderers: %s" % (ok, bad + (["%-interpolation"] if interp else [])))
    if not ok or bad or interp:
        run.report(r, "%s:_format_default_value:rendering" % INTRO, fd.where(),
                   "default values are rendered with %s instead of the GraphQL printer: enum defaults come out as quoted strings, "
                   "strings are not escaped and input objects are printed as JSON, so defaultValue does not parse back to the declared "
                   "default" % (bad + (["%-interpolation"] if interp else []) or "an unrecognised pipeline"))
    # ---- T9 which branch a value takes (independent of T3: whatever renders strings and objects, numbers, booleans and null
    # must come out as their own literals)
    r9 = run.rule("T9", "_format_default_value folded on sample defaults (True, False, None, 0, 1, 7, -3, 0.0, 1.0, 2.5): every test on the "
                        "value and the returned expression are pure (isinstance / is / == / str / json.dumps) and are folded like "
                        "constants; a boolean yields true/false, null yields null and a number yields its own literal - `1` is not `true`", 10)
    if ok and not bad and not interp:
        for _ in range(10):
            r9.instance("rendered by the GraphQL printer (T3): no class dispatch to fold")
    else:
        import json as _json
        from .. import fold
        allowed = {"isinstance": isinstance, "bool": bool, "str": str, "int": int, "float": float, "list": list, "dict": dict, "tuple": tuple,
                   "type": type, "repr": repr, "json": _json, "True": True, "False": False, "None": None}
        param = fd.params[0]
        for sample in (True, False, None, 0, 1, 7, -3, 0.0, 1.0, 2.5):
            inputs = {"%s.has_default_value" % param: True, "%s.default_value" % param: sample}
            try:
                outs = fold.fold_function(fd.node, inputs, allowed)
            except fold.FoldError as e:
                raise AnalysisError("C15.T9: _format_default_value cannot be folded on %r: %s" % (sample, e))
            want = "null" if sample is None else ("true" if sample is True else "false" if sample is False else _json.dumps(sample))
            got = sorted({repr(v) if k == "return" else "<%s>" % k for k, v in outs})
            r9.instance("default %r -> %s" % (sample, got))
            if got != [repr(want)]:
                run.report(r9, "%s:_format_default_value:literal-of(%r)" % (INTRO, sample), fd.where(),
                           "the declared default %r is reported as %s, expected %r: the reported text does not parse back to the declared "
                           "default" % (sample, " / ".join(got), want))
    used = any(isinstance(n, ast.Call) and isinstance(n.func, ast.Name) and n.func.id == "_format_default_value" for e in m.assigns.get("__InputValue__", []) for n in ast.walk(e))
    r.instance("__InputValue.defaultValue uses _format_default_value: %s" % used)
    if not used:
        run.report(r, "%s:__InputValue__:defaultValue" % INTRO, "src/py_gql/schema/introspection.py", "defaultValue is not produced by _format_default_value")

    # ---- T4 disable switch and deprecated filtering
    r = run.rule("T4", "ResolutionContext.field_definition decided row by row (field name x disable switch x parent-is-query-type; every "
                       "test on the name alone folded for the sample names __schema, __type, __typename, x, _x, x__y): a meta name yields "
                       "its own meta field (by the Field(\"__x\") it is defined as) when enabled, on the right parent, and None when "
                       "disabled; an ordinary name yields the parent type's own field whatever the switch says; includeDeprecated "
                       "resolvers keep a member iff it is not deprecated or the flag is set", 2)
    fdn = prog.get_func(WRAP, "ResolutionContext.field_definition")
    run.looked_at(fdn)
    from .. import boolx
    # Path form with concrete field names: every test of field_definition that mentions only the name parameter and
    # constants is folded for a sample name; the switch and the "parent is the query type" test are set per row.
    fargs = [x for x in fdn.node.args.args if x.arg != "self"]
    name_var = next((x.arg for x in fargs if x.annotation is not None and ast.unparse(x.annotation) == "str"), None)
    parent_var = next((x.arg for x in fargs if x.arg != name_var), None)
    shapes.require(name_var is not None and parent_var is not None, "C15.T4: parameters of field_definition not recognised")
    consts = set()
    for n in own_nodes(fdn.node):
        if isinstance(n, ast.Compare) and any(isinstance(x, ast.Name) and x.id == name_var for x in ast.walk(n)):
            consts |= {x.value for x in ast.walk(n) if isinstance(x, ast.Constant) and isinstance(x.value, str)}
    r.instance("names the lookup compares with: %s" % sorted(consts))
    METAS = ("__schema", "__type", "__typename")
    for extra in sorted(consts - set(METAS)):
        run.report(r, "%s:ResolutionContext.field_definition:meta-names" % WRAP, fdn.where(), "the lookup special-cases the name %r" % extra)

    def fold_name_test(t, sample):
        try:
            e = ast.parse(t, mode="eval")
        except SyntaxError:
            return None
        names = {x.id for x in ast.walk(e) if isinstance(x, ast.Name)}
        if names != {name_var} or any(isinstance(x, (ast.Call,)) and not (isinstance(x.func, ast.Attribute) and isinstance(x.func.value, ast.Name)
                                                                         and x.func.value.id == name_var) for x in ast.walk(e)):
            return None
        try:
            return bool(eval(compile(e, "<test>", "eval"), {"__builtins__": {}}, {name_var: sample}))   # a str predicate on a constant
        except Exception:
            return None

    def rows(sample, disabled, is_query):
        def decide(t):
            v = fold_name_test(t, sample)
            if v is not None:
                return v
            if t == "self._disable_introspection":
                return disabled
            if " is " in t and "query_type" in t and parent_var in t:
                return is_query
            return None
        try:
            _ev, exits = boolx.walk_under(fdn.node, decide)
        except ValueError as e:
            raise AnalysisError("C15.T4: %s" % e)
        out = []
        for kind, st, env in exits:
            if kind != "return" or st is None:
                continue
            if isinstance(st.value, ast.Subscript) and not env.get(boolx.HANDLERS):
                continue   # cache hit: whatever an earlier (identical) call stored
            v = boolx.path_subst(st.value, boolx.path_env(env.get(boolx.STMTS, ()), st)) if st.value is not None else ast.Constant(value=None)
            out.append((st, v))
        return out

    def meta_of(v):
        """the meta field a returned module-level name stands for: the first argument of its `Field("__x", ...)` definition"""
        if not isinstance(v, ast.Name):
            return None
        rr = prog.resolve_name(fdn.module, v.id)
        if rr and rr[0] == "assign" and isinstance(rr[1], ast.Call) and rr[1].args and isinstance(rr[1].args[0], ast.Constant):
            return rr[1].args[0].value
        return None

    def is_none(v):
        return isinstance(v, ast.Constant) and v.value is None
    n_rows = 0
    for meta in METAS:
        for disabled in (True, False):
            for is_query in (True, False):
                n_rows += 1
                want = None if disabled or (meta != "__typename" and not is_query) else meta
                for st, v in rows(meta, disabled, is_query):
                    got = None if is_none(v) else (meta_of(v) or ast.unparse(v))
                    if got != want:
                        run.report(r, "%s:ResolutionContext.field_definition:switch-shape" % WRAP, fdn.where(st),
                                   "field_definition(%s) with introspection %s on %s returns `%s` (expected %s)"
                                   % (meta, "disabled" if disabled else "enabled", "the query type" if is_query else "another type",
                                      ast.unparse(v), want or "None" if want is None else "the %s meta field" % want))
                        break
    for sample in ("x", "_x", "x__y"):
        seen = {}
        for disabled in (True, False):
            n_rows += 1
            for st, v in rows(sample, disabled, True) + rows(sample, disabled, False):
                seen.setdefault(disabled, set()).add(" ".join(ast.unparse(v).split()))
                if is_none(v) or meta_of(v) is not None or "field_map" not in ast.unparse(v):
                    run.report(r, "%s:ResolutionContext.field_definition:switch-placement" % WRAP, fdn.where(st),
                               "for the ordinary field name %r (introspection %s) the lookup returns `%s` instead of the parent type's "
                               "own field: ordinary fields are affected by the meta-field handling"
                               % (sample, "disabled" if disabled else "enabled", ast.unparse(v)))
                    break
        if seen.get(True) != seen.get(False):
            run.report(r, "%s:ResolutionContext.field_definition:switch-placement" % WRAP, fdn.where(),
                       "the answer for the ordinary field name %r depends on the disable_introspection switch" % sample)
    r.instance("%d rows (name x switch x parent) decided" % n_rows)
    # the members' own definition of `deprecated` (Field: bool(reason); EnumValue: reason is not None) is what
    # isDeprecated reports, so the visibility filter must use that very attribute
    # a filter is a comprehension condition or an accumulate loop (`for v in S: if ...: acc.append(v)`); either way the rule
    # decides, per (member deprecated, includeDeprecated given), whether the member is kept
    from .. import boolx
    DEP_ATTRS = {"deprecated", "deprecation_reason", "is_deprecated"}

    def role_of(atom, var):
        if atom.replace(" ", "") == "%s.deprecated" % var:
            return "dep"
        if "includeDeprecated" in atom:
            return "flag"
        raise KeyError(atom)
    filters = []   # (line, text, var, attrs read on the member, kept(dep, flag) -> bool; KeyError on an atom with no role)
    for n in ast.walk(m.tree):
        if isinstance(n, (ast.ListComp, ast.GeneratorExp)) and n.generators and n.generators[0].ifs:
            cond = n.generators[0].ifs[0] if len(n.generators[0].ifs) == 1 else ast.BoolOp(op=ast.And(), values=list(n.generators[0].ifs))
            var = ast.unparse(n.generators[0].target)
            attrs = {x.attr for x in ast.walk(cond) if isinstance(x, ast.Attribute) and ast.unparse(x.value) == var}
            if not (attrs & DEP_ATTRS):
                continue

            def kept(dep, flag, cond=cond, var=var):
                env = {a: (dep if role_of(a, var) == "dep" else flag) for a in boolx.atoms(cond)}
                return boolx.evaluate(cond, env)
            filters.append((n.lineno, " ".join(ast.unparse(cond).split()), var, attrs, kept))
        elif isinstance(n, ast.For) and isinstance(n.target, ast.Name) and not n.orelse:
            var = n.target.id
            tests = [x.test for x in ast.walk(n) if isinstance(x, (ast.If, ast.IfExp))]
            attrs = {x.attr for t in tests for x in ast.walk(t) if isinstance(x, ast.Attribute) and ast.unparse(x.value) == var}
            appends = [x for x in ast.walk(n) if isinstance(x, ast.Expr) and isinstance(x.value, ast.Call) and isinstance(x.value.func, ast.Attribute)
                       and x.value.func.attr in ("append", "add") and len(x.value.args) == 1 and ast.unparse(x.value.args[0]) == var]
            if not (attrs & DEP_ATTRS) or not appends:
                continue

            def kept(dep, flag, loop=n, var=var, appends=appends):
                def decide(t):
                    return dep if role_of(t, var) == "dep" else flag
                try:
                    _ev, exits = boolx.walk_under(boolx.body_function(loop.body), decide)
                except ValueError as e:
                    raise AnalysisError("C15.T4: filter loop at line %d: %s" % (loop.lineno, e))
                got = {any(any(x is a for a in appends) for x in env.get(boolx.STMTS, ())) for _k, _s, env in exits}
                if len(got) != 1:
                    raise KeyError("the loop body keeps and drops the member on executions the two flags do not distinguish")
                return got.pop()
            filters.append((n.lineno, "loop over %s: %s" % (ast.unparse(n.iter), "; ".join(" ".join(ast.unparse(t).split()) for t in tests)), var, attrs, kept))
    for line, txt, var, attrs, kept in filters:
        r.instance("visibility filter `%s` reads %s" % (txt, sorted(attrs)))
        if "deprecated" not in attrs:
            run.report(r, "%s:deprecated-filter-attribute(%s)" % (INTRO, ",".join(sorted(attrs))), "src/py_gql/schema/introspection.py:%d" % line,
                       "deprecated members are filtered on %s instead of the member's `deprecated` flag: EnumValue.deprecated is "
                       "`deprecation_reason is not None`, so a value deprecated with an empty reason stays listed while reporting "
                       "isDeprecated: true" % sorted(attrs))
            continue
        try:
            ok = all(bool(kept(dep, flag)) == ((not dep) or flag) for dep in (False, True) for flag in (False, True))
        except KeyError:
            ok = False
        if not ok:
            run.report(r, "%s:__Type__:deprecated-filter(%s)" % (INTRO, txt), "src/py_gql/schema/introspection.py:%d" % line,
                       "the filter `%s` does not keep a member iff it is not deprecated or includeDeprecated is set" % txt)
    if len(filters) < 2:
        run.report(r, "%s:deprecated-filter-missing" % INTRO, "src/py_gql/schema/introspection.py",
                   "fewer than two includeDeprecated filters (fields and enumValues) found: %d" % len(filters))

    # ---- T5 meta resolvers do not raise library errors
    r = run.rule("T5", "resolvers (lambdas or module functions) of the introspection types and meta fields call nothing that explicitly raises a library "
                       "error (an unknown name must yield null, not an exception that aborts the query)", 1)
    mr = excflow.MayRaise(prog)
    guard_ok = {"get_possible_types": "guarded by isinstance(type_, GraphQLAbstractType) in the same resolver"}
    holder = prog.get_func(INTRO, "_resolve_type_kind")
    for name, exprs in m.assigns.items():
        for e in exprs:
            for n in ast.walk(e):
                if isinstance(n, ast.keyword) and n.arg == "resolver" and isinstance(n.value, (ast.Lambda, ast.Name)):
                    if isinstance(n.value, ast.Lambda):
                        lam_body = n.value.body
                    else:
                        rr = prog.resolve_name(m, n.value.id)
                        if not (rr and rr[0] == "func" and rr[1].module is m):
                            continue
                        lam_body = rr[1].node      # a resolver written as a module-level function
                    for c in ast.walk(lam_body):
                        if isinstance(c, ast.Call) and isinstance(c.func, ast.Attribute):
                            cands = prog.methods_named(c.func.attr)
                            if not cands or c.func.attr in excflow.GENERIC_NAMES:
                                continue
                            for cand in cands:
                                res = mr.of(cand)
                                lib = sorted(x for x in res if x in mr.u.repo)
                                r.instance("%s resolver calls %s (raises %s)" % (name, cand.qualname, lib))
                                if lib and c.func.attr not in guard_ok:
                                    run.report(r, "%s:%s:resolver-raises(%s:%s)" % (INTRO, name, cand.qualname, ",".join(lib)), "src/py_gql/schema/introspection.py:%d" % c.lineno,
                                               "the %s resolver calls %s, which raises %s (not a ResolverError): e.g. `{ __type(name: \"Nope\") { name } }` "
                                               "aborts the whole query instead of returning null" % (name, cand.qualname, lib))

    # ---- T8 reporting the schema does not change it
    from .. import aliasmut
    aliasmut.check(prog, run, "T8", ["py_gql.schema.introspection"], 0,
                   "an introspection request would reorder or change the schema it reports (and fail outright on a tuple of members)",
                   getters=True)

    # ---- T6 introspection reads the live schema (no memoisation across calls)
    r = run.rule("T6", "nothing in schema/introspection.py remembers an answer across calls: no function carries a caching decorator "
                       "(functools.lru_cache / cache / cached_property / any *cache* decorator), no resolver writes or reads a "
                       "module-level mutable, and no function has a written mutable default — a Schema is mutable (transforms replace "
                       "its types in place), so a remembered type list or field list keeps reporting removed or replaced elements", 20)
    mod_mutables = {n for n, es in m.assigns.items() if any(isinstance(e, (ast.Dict, ast.List, ast.Set)) or
                    (isinstance(e, ast.Call) and isinstance(e.func, ast.Name) and e.func.id in ("dict", "list", "set", "OrderedDict", "defaultdict", "WeakKeyDictionary"))
                    for e in es)}
    funcs = [f for f in prog.all_funcs() if f.module is m]
    lambdas = [n for es in m.assigns.values() for e in es for n in ast.walk(e) if isinstance(n, ast.Lambda)]
    for f in funcs:
        r.instance("function %s" % f.qualname)
        for d in f.node.decorator_list:
            txt = ast.unparse(d)
            if "cache" in txt.lower() or "memo" in txt.lower():
                run.report(r, "%s:%s:memoised(%s)" % (INTRO, f.qualname, txt.split("(")[0]), f.where(),
                           "%s is decorated with @%s: its answer for a schema object is remembered although the schema's types can be "
                           "replaced in place afterwards" % (f.qualname, txt))
        for n in own_nodes(f.node):
            if isinstance(n, (ast.Subscript, ast.Attribute)) and isinstance(n.ctx, ast.Store) and isinstance(n.value, ast.Name) and n.value.id in mod_mutables:
                run.report(r, "%s:%s:module-cache(%s)" % (INTRO, f.qualname, n.value.id), f.where(n), "%s writes the module-level container %s" % (f.qualname, n.value.id))
            if isinstance(n, ast.Call) and isinstance(n.func, ast.Attribute) and isinstance(n.func.value, ast.Name) and n.func.value.id in mod_mutables \
                    and n.func.attr in ("setdefault", "update", "append", "add", "__setitem__"):
                run.report(r, "%s:%s:module-cache(%s)" % (INTRO, f.qualname, n.func.value.id), f.where(n), "%s writes the module-level container %s" % (f.qualname, n.func.value.id))
    memo_funcs = {f.name for f in funcs if any("cache" in ast.unparse(d).lower() or "memo" in ast.unparse(d).lower() for d in f.node.decorator_list)}
    for lam in lambdas:
        r.instance("resolver lambda at line %d" % lam.lineno, nontrivial=False)
        for n in ast.walk(lam.body):
            if isinstance(n, ast.Name) and n.id in mod_mutables:
                run.report(r, "%s:<lambda>:module-state(%s)" % (INTRO, n.id), "src/py_gql/schema/introspection.py:%d" % n.lineno,
                           "a resolver reads the module-level container %s" % n.id)

    # ---- T7 ofType peels exactly one wrapper
    r = run.rule("T7", "the resolver of __Type.ofType returns, for a List/NonNull type, exactly the `.type` of the type it was given — one "
                       "wrapper level per step, no loop, no further unwrapping — and None otherwise: collapsing levels reports `[[T]]` "
                       "as `[T]`", 1)
    of = None
    for e in m.assigns.get("__Type__", []):
        for n in ast.walk(e):
            if isinstance(n, ast.Call) and isinstance(n.func, ast.Name) and n.func.id == "Field" and n.args and isinstance(n.args[0], ast.Constant) \
                    and n.args[0].value == "ofType":
                of = n
    shapes.require(of is not None, "C15.T7: __Type.ofType field not found")
    res = {k.arg: k.value for k in of.keywords}.get("resolver")
    body, pname, where = None, None, "src/py_gql/schema/introspection.py:%d" % of.lineno
    if isinstance(res, ast.Lambda):
        body, pname = [ast.Return(value=res.body)], res.args.args[0].arg
    elif isinstance(res, ast.Name):
        rf = prog.resolve_name(m, res.id)
        if rf and rf[0] == "func":
            body, pname = rf[1].node.body, rf[1].node.args.args[0].arg
            where = rf[1].where()
    if body is None:
        raise AnalysisError("C15.T7: cannot resolve the ofType resolver")
    r.instance("ofType resolver on parameter %s" % pname)
    bad = None
    for st in body:
        for n in ast.walk(st):
            if isinstance(n, (ast.While, ast.For)):
                bad = "a loop"
            if isinstance(n, ast.Call) and isinstance(n.func, ast.Name) and n.func.id in ("unwrap_type", "nullable_type"):
                bad = "%s(...)" % n.func.id
            if isinstance(n, ast.Attribute) and n.attr == "type" and isinstance(n.value, ast.Attribute) and n.value.attr == "type":
                bad = "`%s`" % ast.unparse(n)
    rets = [n for st in body for n in ast.walk(st) if isinstance(n, ast.Return) and n.value is not None]
    for rt in rets:
        v = rt.value
        vals = [v.body, v.orelse] if isinstance(v, ast.IfExp) else [v]
        for x in vals:
            if isinstance(x, ast.Constant) and x.value is None:
                continue
            if not (isinstance(x, ast.Attribute) and x.attr == "type" and isinstance(x.value, ast.Name) and x.value.id == pname):
                bad = bad or "returns `%s`" % " ".join(ast.unparse(x).split())[:50]
    if bad:
        run.report(r, "%s:__Type.ofType:not-one-level(%s)" % (INTRO, bad), where,
                   "the ofType resolver contains %s: it does not return exactly `%s.type`, so nested modifiers of the same kind are "
                   "reported collapsed or skipped" % (bad, pname))


def check_introspection_query_depth(prog, run, rule_id):
    """The canned introspection query unwraps as many wrapper levels as the reference query does."""
    import re as _re
    from .. import fold
    IQ = "py_gql.utilities.introspection_query"
    r = run.rule(rule_id, "introspection_query() folded for description in (True, False) (its body is string formatting over constants and "
                          "helpers of its own module, folded like constants): the TypeRef fragment selects `kind` and `name` at each of "
                          "8 levels joined by 7 nested `ofType` selections - the depth of the reference query, enough for "
                          "`[[[T!]!]!]!` - and `description` is selected exactly when asked for", 4)
    f = prog.get_func(IQ, "introspection_query")
    run.looked_at(f)
    base = {"str": str, "len": len, "bool": bool, "int": int, "range": range, "list": list, "tuple": tuple, "dict": dict, "min": min,
            "max": max, "True": True, "False": False, "None": None, "reversed": reversed, "enumerate": enumerate}
    ns = fold.module_namespace(prog, IQ, base)
    param = f.params[0] if f.params else None
    for description in (True, False):
        try:
            outs = fold.fold_function(f.node, {param: description} if param else {}, ns)
        except fold.FoldError as e:
            raise AnalysisError("C15.%s: introspection_query cannot be folded: %s" % (rule_id, e))
        if len(outs) != 1 or outs[0][0] != "return" or not isinstance(outs[0][1], str):
            raise AnalysisError("C15.%s: introspection_query does not fold to one text (%s)" % (rule_id, [(k, type(v).__name__) for k, v in outs]))
        text = outs[0][1]
        toks = _re.findall(r"[_A-Za-z]\w*|\.\.\.|[{}()\[\]:!$@=|&]", _re.sub(r"#[^\n]*", "", text))
        # the selection set of `fragment TypeRef on __Type`
        levels = None
        for i in range(len(toks) - 4):
            if toks[i] == "fragment" and toks[i + 1] == "TypeRef":
                j = toks.index("{", i)
                depth, levels, cur = 0, {}, j
                while cur < len(toks):
                    t = toks[cur]
                    if t == "{":
                        depth += 1
                    elif t == "}":
                        depth -= 1
                        if depth == 0:
                            break
                    else:
                        levels.setdefault(depth, []).append(t)
                    cur += 1
                break
        if levels is None:
            raise AnalysisError("C15.%s: fragment TypeRef not found in the folded query" % rule_id)
        n_levels = max(levels)
        hops = sum(1 for d in levels if "ofType" in levels[d])
        r.instance("description=%s: TypeRef has %d levels, %d ofType hops" % (description, n_levels, hops))
        complete = all("kind" in levels.get(d, ()) and "name" in levels.get(d, ()) for d in range(1, n_levels + 1))
        if hops < 7 or not complete:
            run.report(r, "%s:introspection_query:type-ref-depth" % IQ, f.where(),
                       "the TypeRef fragment of the canned introspection query follows %d `ofType` hops%s (the reference query follows 7): "
                       "a type wrapped deeper than that is reported without its named type" % (hops, "" if complete else " and a level lacks kind/name"))
        has_desc = "description" in toks
        r.instance("description=%s: `description` selected: %s" % (description, has_desc))
        if has_desc != description:
            run.report(r, "%s:introspection_query:description(%s)" % (IQ, description), f.where(),
                       "introspection_query(description=%s) %s `description`" % (description, "selects" if has_desc else "does not select"))


def check_type_map_closure(prog, run, rule_id):
    """Every type a schema's members mention is a type of the schema."""
    from .. import boolx, dispatch
    SCH = "py_gql.schema.schema"
    r = run.rule(rule_id, "_build_type_map, per kind of registered type (path form, loops read as one iteration): a union contributes its "
                          "members, an object type its interfaces, an object AND an interface type the type of every field and of every field "
                          "argument, an input object the type of every input field, and all of them go through the recursive call - a type "
                          "referenced only from an interface field's argument is reported by __schema.types / __type like any other", 7)
    f = prog.get_func(SCH, "_build_type_map")
    run.looked_at(f)
    loops = [n for n in f.node.body if isinstance(n, ast.For)]
    if not loops:
        raise AnalysisError("C15.%s: the loop over types of _build_type_map was not found" % rule_id)
    lp = loops[0]
    tested = {}
    for n in ast.walk(lp):
        if isinstance(n, ast.Call) and isinstance(n.func, ast.Name) and n.func.id == "isinstance" and len(n.args) == 2 and isinstance(n.args[0], ast.Name):
            tested[n.args[0].id] = tested.get(n.args[0].id, 0) + 1
    if not tested:
        raise AnalysisError("C15.%s: no class test in _build_type_map" % rule_id)
    var = max(tested, key=tested.get)
    hier = dispatch.Hierarchy(prog)
    body = ast.fix_missing_locations(boolx.body_function(boolx.at_least_once(lp.body)))
    WANT = {
        "UnionType": [("types", None)],
        "ObjectType": [("interfaces", None), ("fields", "type"), ("fields", "arguments")],
        "InterfaceType": [("fields", "type"), ("fields", "arguments")],
        "InputObjectType": [("fields", "type")],
    }
    for kind, wants in WANT.items():
        def extra(t):
            if t.endswith(" in type_map") or " in " in t and t.split(" in ")[-1].startswith("type_map"):
                return False          # first time this name is seen
            if t.endswith("is None"):
                return False
            return None
        try:
            ev, exits = boolx.walk_under(body, dispatch.decide_for(hier, var, kind, extra))
        except ValueError as e:
            raise AnalysisError("C15.%s: %s" % (rule_id, e))
        rec_ok = False
        reads = set()
        for k_, st_, env in exits:
            if k_ == "raise":
                continue
            rec_ok = rec_ok or any(isinstance(c.func, ast.Name) and c.func.id == f.name for c in env.get(boolx.CALLS, ()))
        for _id, (node, _env) in ev.items():
            if isinstance(node, ast.Attribute):
                reads.add(node.attr)
        for member, sub in wants:
            need = sub or member
            ok = member in reads and need in reads and rec_ok
            r.instance("%s: %s%s collected: %s" % (kind, member, "." + sub if sub else "", ok))
            if not ok:
                run.report(r, "%s:_build_type_map:not-collected(%s.%s)" % (SCH, kind, member + ("." + sub if sub else "")), f.where(lp),
                           "for a %s, _build_type_map does not collect %s (attribute reads on that execution: %s; recursive call: %s): a type "
                           "referenced only there is missing from schema.types and from introspection" % (
                               kind, "the types of its %s' %s" % (member, sub) if sub else "its %s" % member, sorted(reads & {"types", "interfaces", "fields", "arguments", "type"}), rec_ok))
