"""C16 — instrumentation hooks pairing/nesting on every path; middlewares."""
import ast

from .. import shapes, excflow
from ..cfg import event_paths
from ..model import AnalysisError, own_nodes, norm_stmt

GQL = "py_gql._graphql"
EXECUTE = "py_gql.execution.execute"
SUBSCRIBE = "py_gql.execution.subscribe"
EXE = "py_gql.execution.executor"
BEXE = "py_gql.execution.blocking_executor"
INSTR = "py_gql.execution.instrumentation"
UTILS = "py_gql._utils"


def hook_name(n):
    if isinstance(n, ast.Call) and isinstance(n.func, ast.Attribute) and n.func.attr.startswith("on_"):
        return n.func.attr
    return None


def closure_hook_counts(fi):
    """For a nested closure: set of per-path tuples of hook events."""
    normal, raised = event_paths(fi.node, lambda n: hook_name(n), may_raise=lambda n: None)
    return normal


def nested_ok(seq):
    """Bracket discipline of X_start / X_end events."""
    stack = []
    for e in seq:
        if e.endswith("_start"):
            stack.append(e[:-len("_start")])
        elif e.endswith("_end"):
            if not stack or stack[-1] != e[:-len("_end")]:
                return False
            stack.pop()
    return not stack


def check(prog, run):
    # ---- H1 process_graphql_query
    r = run.rule("H1", "process_graphql_query: on every path to a return the stage hooks form properly nested start/end pairs, "
                       "each at most once, inside on_query_start ... on_query_end (via _abort/_on_end, or _on_end handed to "
                       "map_value over the execution result)", 5)
    pq = prog.get_func(GQL, "process_graphql_query")
    run.looked_at(pq)
    on_end = pq.nested.get("_on_end")
    abort = pq.nested.get("_abort")
    shapes.require(on_end is not None and abort is not None, "C16.H1: _abort/_on_end closures not found")
    end_paths = closure_hook_counts(on_end)
    r.instance("_on_end hook paths %s" % sorted(end_paths))
    if end_paths != {("on_query_end",)}:
        run.report(r, "%s:process_graphql_query._on_end:hooks" % GQL, on_end.where(), "_on_end does not fire on_query_end exactly once on every path: %s" % sorted(end_paths))
    abort_calls_end = any(isinstance(n, ast.Call) and isinstance(n.func, ast.Name) and n.func.id == "_on_end" for n in ast.walk(abort.node))
    r.instance("_abort goes through _on_end: %s" % abort_calls_end)
    if not abort_calls_end:
        run.report(r, "%s:process_graphql_query._abort:skips-_on_end" % GQL, abort.where(), "_abort does not pass its result through _on_end: on_query_end is skipped on aborted requests")

    def ev(n):
        h = hook_name(n)
        if h:
            return h
        if isinstance(n, ast.Call) and isinstance(n.func, ast.Name) and n.func.id == "_abort":
            return "on_query_end"
        if isinstance(n, ast.Call) and isinstance(n.func, ast.Attribute) and n.func.attr == "map_value" and len(n.args) >= 2 \
                and isinstance(n.args[1], ast.Name) and n.args[1].id == "_on_end":
            return "on_query_end"
        if isinstance(n, ast.Call) and isinstance(n.func, ast.Name) and n.func.id in ("parse", "validate_ast", "execute"):
            return "call:" + n.func.id
        return None

    def may_raise(node):
        for x in ast.walk(node):
            if isinstance(x, ast.Call) and isinstance(x.func, ast.Name) and x.func.id in ("parse", "execute"):
                return "*"
        return None
    normal, raised = event_paths(pq.node, ev, may_raise=may_raise, raising_events={"call:parse", "call:execute", "on_query_end"}, cap=14)
    for seq in sorted(normal):
        hooks = [e for e in seq if e.startswith("on_")]
        r.instance("path %s" % [e for e in seq if not e.startswith("H:")])
        key = ">".join(e.replace("on_", "") for e in hooks)
        if not hooks or hooks[0] != "on_query_start":
            run.report(r, "%s:process_graphql_query:path(%s)" % (GQL, key), pq.where(), "a path does not start with on_query_start: %s" % hooks)
            continue
        if len(set(hooks)) != len(hooks):
            run.report(r, "%s:process_graphql_query:path(%s)" % (GQL, key), pq.where(), "a hook fires twice on one path: %s" % hooks)
        elif not nested_ok([h[3:] for h in hooks]):
            run.report(r, "%s:process_graphql_query:path(%s)" % (GQL, key), pq.where(),
                       "hooks are not properly nested on this path: %s (an end hook fires while an inner stage is still open, or a "
                       "started stage is never closed)" % hooks)
    # an execute() failure of the handled classes must still reach on_query_end: covered by handler paths above.

    # ---- H2 execute / subscribe
    r = run.rule("H2", "execute/subscribe: on every path (normal or raising) on which on_execution_start fired, "
                       "on_execution_end fires too (directly, or through the continuation attached to the result with "
                       "map_value); refusals and library-error raisers otherwise precede the start hook", 6)
    mr = excflow.MayRaise(prog)
    for mod, name in ((EXECUTE, "execute"), (SUBSCRIBE, "subscribe")):
        f = prog.get_func(mod, name)
        run.looked_at(f)
        enders = {}
        for cn, c in f.nested.items():
            paths = closure_hook_counts(c)
            if any("on_execution_end" in p for p in paths):
                enders[cn] = paths
                r.instance("%s.%s hook paths %s" % (name, cn, sorted(paths)))
                if paths != {("on_execution_end",)}:
                    run.report(r, "%s:%s.%s:hooks" % (mod, name, cn), c.where(), "%s does not fire on_execution_end exactly once on every path: %s" % (cn, sorted(paths)))
        raisers = {}
        for n in own_nodes(f.node):
            if isinstance(n, ast.Call) and isinstance(n.func, (ast.Name, ast.Attribute)):
                # module functions and methods alike (`executor.collect_fields(..)` evaluates @skip / @include and may fail)
                cands = prog.resolve_call(f, n, dynamic=True) if isinstance(n.func, ast.Attribute) else prog.resolve_call(f, n)
                if not cands and isinstance(n.func, ast.Attribute) and n.func.attr not in excflow.GENERIC_NAMES and hook_name(n) is None:
                    byname = prog.methods_named(n.func.attr)       # receiver of unknown class: the method by name, as the may-raise engine does
                    if 0 < len(byname) <= excflow.BY_NAME_CAP:
                        cands = byname
                for callee in cands:
                    if callee.module.name.startswith("py_gql") and callee.name != "__init__":
                        res = mr.of(callee)
                        lib = sorted(e for e in res if e in mr.u.repo or e == "RuntimeError")
                        if lib:
                            raisers[id(n)] = (callee.qualname, lib)

        from ..canon import Canon
        canon2 = Canon(f.node)

        def ev(n, enders=enders, raisers=raisers, canon2=canon2):
            h = hook_name(n)
            if h in ("on_execution_start", "on_execution_end"):
                return h
            if isinstance(n, ast.Call) and canon2.func_text(n).endswith(".map_value") and len(n.args) >= 2 \
                    and isinstance(n.args[1], ast.Name) and n.args[1].id in enders:
                return "on_execution_end"
            if isinstance(n, ast.Call) and id(n) in raisers:
                return "call:" + raisers[id(n)][0]
            return None

        def may_raise(node, raisers=raisers):
            for x in ast.walk(node):
                if isinstance(x, ast.Call) and id(x) in raisers:
                    return "*"
            return None
        normal, raised = event_paths(f.node, ev, may_raise=may_raise, raising_events={"call:" + v[0] for v in raisers.values()}, cap=14)
        for seq in sorted(normal):
            core = [e for e in seq if e.startswith("on_")]
            r.instance("%s normal path %s" % (name, [e for e in seq if not e.startswith("H:")]))
            if core != ["on_execution_start", "on_execution_end"]:
                run.report(r, "%s:%s:path(%s)" % (mod, name, ">".join(core)), f.where(),
                           "a returning path of %s has execution hooks %s (expected start then the attached end)" % (name, core))
        for seq in sorted(raised):
            core = [e for e in seq if not e.startswith("H:")]
            r.instance("%s raising path %s" % (name, core))
            if "on_execution_start" in core and "on_execution_end" not in core[core.index("on_execution_start"):]:
                what = [e for e in core if e.endswith("!")] or [core[-1]]
                run.report(r, "%s:%s:start-without-end(%s)" % (mod, name, what[-1]), f.where(),
                           "%s can leave through an exception (%s) after on_execution_start with no on_execution_end on that "
                           "path: %s" % (name, what[-1], core))

    # ---- H3 field hooks
    r = run.rule("H3", "resolve_field (both executors): on_field_start precedes argument coercion and the resolver call; every "
                       "path that returns fires on_field_end exactly once after it (closures fail/complete fire it once; "
                       "complete cannot raise the class handled by else_)", 8)
    from .. import usercalls
    mr_user = excflow.MayRaise(prog, implicit=usercalls.implicit(prog, ["ResolverError"]))
    for mod, q in ((EXE, "Executor.resolve_field"), (BEXE, "BlockingExecutor.resolve_field")):
        f = prog.get_func(mod, q)
        run.looked_at(f)
        closures = {}
        for cn, c in f.nested.items():
            paths = closure_hook_counts(c)
            closures[cn] = paths
            r.instance("%s.%s hook paths %s" % (q, cn, sorted(paths)))
            if any(p.count("on_field_end") != 1 for p in paths):
                run.report(r, "%s:%s.%s:hooks" % (mod, q, cn), c.where(), "closure %s fires on_field_end %s times" % (cn, sorted({p.count('on_field_end') for p in paths})))

        from ..canon import Canon
        canon = Canon(f.node)

        def ev(n, closures=closures, canon=canon):
            h = hook_name(n)
            if h in ("on_field_start", "on_field_end"):
                return h
            if isinstance(n, ast.Call):
                ft = canon.func_text(n)
                if isinstance(n.func, ast.Name) and n.func.id in closures:
                    return "on_field_end"
                if ft.startswith("self.field_resolver("):
                    return "resolver"
                if ft.endswith(".argument_values"):
                    return "args"
                if ft.endswith(".map_value") and len(n.args) >= 2 and isinstance(n.args[1], ast.Name) and n.args[1].id in closures:
                    return "on_field_end"
                if ft.endswith(".complete_value"):
                    return "complete_value"
            return None

        def may_raise(node):
            for x in ast.walk(node):
                if isinstance(x, ast.Call) and ev(x) in ("resolver", "args"):
                    return "*"
            return None
        normal, raised = event_paths(f.node, ev, may_raise=may_raise, raising_events={"resolver", "args"}, cap=12)
        for seq in sorted(normal):
            core = [e for e in seq if not e.startswith("H:")]
            r.instance("%s path %s" % (q, core))
            key = "%s:%s:path(%s)" % (mod, q, ">".join(core))
            if not core or core[0] != "on_field_start":
                run.report(r, key, f.where(), "a path does not begin with on_field_start: %s" % core)
                continue
            if core.count("on_field_end") != 1 or core.count("on_field_start") != 1:
                run.report(r, key, f.where(), "a returning path fires on_field_start/on_field_end %d/%d times: %s"
                           % (core.count("on_field_start"), core.count("on_field_end"), core))
            for e in ("args", "resolver", "args!", "resolver!"):
                if e in core and core.index(e) < core.index("on_field_start"):
                    run.report(r, key, f.where(), "%s happens before on_field_start" % e)
            if "resolver" in core and "on_field_end" in core and core.index("on_field_end") < core.index("resolver"):
                run.report(r, key, f.where(), "on_field_end fires before the resolver is invoked")
        # else_ class vs may-raise of the `then` closure
        for n in own_nodes(f.node):
            if isinstance(n, ast.Call) and isinstance(n.func, ast.Attribute) and n.func.attr == "map_value":
                for k in n.keywords:
                    if k.arg == "else_" and isinstance(k.value, ast.Tuple) and isinstance(n.args[1], ast.Name) and n.args[1].id in f.nested:
                        cls = ast.unparse(k.value.elts[0])
                        then = f.nested[n.args[1].id]
                        # completion runs user code too (a type resolver, a custom scalar's serializer): a ResolverError raised
                        # there reaches else_ just like an explicit raise would (vf/usercalls.py)
                        res = mr_user.of(then)
                        r.instance("%s: then-closure %s may raise %s; else_ handles %s" % (q, then.name, sorted(res), cls))
                        if any(mr.u.is_subclass(e, cls) for e in res):
                            run.report(r, "%s:%s:double-end" % (mod, q), f.where(n),
                                       "%s can raise %s after firing on_field_end, and else_ routes it to a closure that fires "
                                       "on_field_end again" % (then.name, cls))

    # ---- H4 MultiInstrumentation
    r = run.rule("H4", "MultiInstrumentation overrides every hook of Instrumentation; start hooks iterate forwards, end hooks "
                       "backwards; arguments are forwarded unchanged to the same hook", 10)
    base = prog.get_class(INSTR, "Instrumentation")
    multi = prog.get_class(INSTR, "MultiInstrumentation")
    hooks = sorted(n for n in base.methods if n.startswith("on_"))
    shapes.require(len(hooks) >= 10, "C16.H4: fewer than 10 hooks on Instrumentation")
    for h in hooks:
        m = multi.methods.get(h)
        r.instance("MultiInstrumentation.%s" % h)
        if m is None:
            run.report(r, "%s:MultiInstrumentation:missing(%s)" % (INSTR, h), multi.module.relpath, "hook %s is not forwarded to the stacked instrumentations" % h)
            continue
        run.looked_at(m)
        loops = [n for n in own_nodes(m.node) if isinstance(n, ast.For)]
        if len(loops) != 1:
            run.report(r, "%s:MultiInstrumentation.%s:shape" % (INSTR, h), m.where(), "not a single loop over the instrumentations")
            continue
        lp = loops[0]
        from ..canon import Canon
        lp_iter = Canon(m.node).expr(lp.iter)   # the iterable may be named in a local first
        it = ast.unparse(lp_iter)
        rev = it.endswith("[::-1]") or it.startswith("reversed(")
        # the iterated collection is the full member list: the attribute __init__ binds to its *args (unfiltered)
        base_expr = lp_iter
        if isinstance(base_expr, ast.Subscript):
            base_expr = base_expr.value
        elif isinstance(base_expr, ast.Call) and base_expr.args:
            base_expr = base_expr.args[0]
        init = multi.methods.get("__init__")
        full = set()
        if init is not None and init.node.args.vararg is not None:
            va = init.node.args.vararg.arg
            for x in own_nodes(init.node):
                if isinstance(x, ast.Assign) and isinstance(x.targets[0], ast.Attribute) and isinstance(x.value, (ast.Name, ast.Call)):
                    src = x.value.args[0] if isinstance(x.value, ast.Call) and ast.unparse(x.value.func) in ("tuple", "list") and x.value.args else x.value
                    if isinstance(src, ast.Name) and src.id == va:
                        full.add("self.%s" % x.targets[0].attr)
        if ast.unparse(base_expr) not in full:
            run.report(r, "%s:MultiInstrumentation.%s:partial-members(%s)" % (INSTR, h, ast.unparse(base_expr)), m.where(lp),
                       "%s iterates `%s`, which is not the full list of stacked instrumentations (%s): members left out of it never "
                       "see this hook" % (h, ast.unparse(base_expr), ", ".join(sorted(full)) or "none found"))
        if h.endswith("_end") != rev:
            run.report(r, "%s:MultiInstrumentation.%s:direction" % (INSTR, h), m.where(lp),
                       "%s iterates the instrumentations %s" % (h, "in reverse" if rev else "forwards (end hooks must unwind in reverse)"))
        calls = [n for n in ast.walk(lp) if isinstance(n, ast.Call) and isinstance(n.func, ast.Attribute) and isinstance(n.func.value, ast.Name)
                 and n.func.value.id == lp.target.id]
        params = m.params[1:]
        if len(calls) != 1 or calls[0].func.attr != h or [ast.unparse(a) for a in calls[0].args] != params:
            run.report(r, "%s:MultiInstrumentation.%s:forwarding" % (INSTR, h), m.where(lp),
                       "%s does not forward exactly (%s) to each instrumentation's %s" % (h, ", ".join(params), h))

    # ---- H5 middlewares
    r = run.rule("H5", "apply_middlewares wraps once per middleware in list order; field_resolver applies the chain once on a "
                       "cache miss, stores and returns the stored wrapper; both executors call what field_resolver returned", 5)
    am = prog.get_func(UTILS, "apply_middlewares")
    run.looked_at(am)
    loops = [n for n in own_nodes(am.node) if isinstance(n, ast.For)]
    shapes.require(len(loops) == 1, "C16.H5: apply_middlewares loop not found")
    lp = loops[0]
    r.instance("apply_middlewares loop `%s`" % norm_stmt(lp))
    it = ast.unparse(lp.iter)
    if it != am.params[1]:
        run.report(r, "%s:apply_middlewares:order" % UTILS, am.where(lp), "middlewares are iterated as `%s`, not in list order" % it)
    wraps = [n for n in ast.walk(lp) if isinstance(n, ast.Assign) and isinstance(n.value, ast.Call) and ast.unparse(n.value.func) in ("functools.partial", "ft.partial")]
    r.instance("wrap statement `%s`" % (norm_stmt(wraps[0]) if wraps else None))
    if len(wraps) != 1 or not (len(wraps[0].value.args) == 2 and ast.unparse(wraps[0].value.args[0]) == lp.target.id
                                and ast.unparse(wraps[0].value.args[1]) == ast.unparse(wraps[0].targets[0])):
        run.report(r, "%s:apply_middlewares:wrap" % UTILS, am.where(lp), "each middleware is not wrapped exactly once around the chain built so far")
    rets = [n for n in own_nodes(am.node) if isinstance(n, ast.Return)]
    if wraps and not all(ast.unparse(x.value) == ast.unparse(wraps[0].targets[0]) for x in rets):
        run.report(r, "%s:apply_middlewares:return" % UTILS, am.where(), "the wrapped chain is not what is returned")
    fr = prog.get_func(EXE, "Executor.field_resolver")
    run.looked_at(fr)
    # path form, interprocedural: with middlewares configured, every cache-miss execution of field_resolver goes through
    # apply_middlewares exactly once (counting through same-module helpers it delegates to), with the configured list,
    # and returns the very value it stored in the cache; with none configured, apply_middlewares is not needed.
    import re
    from .. import boolx
    from ..canon import Canon
    MW = re.compile(r"^\w+\._middlewares$")

    def cache_read(st, env, f):
        """the returned expression, with the locals of this execution substituted, is `<x>._resolver_cache[...]`"""
        if st.value is None:
            return False
        v = boolx.path_subst(st.value, boolx.path_env(env.get(boolx.STMTS, ()), st))
        return isinstance(v, ast.Subscript) and "_resolver_cache" in ast.unparse(v.value)

    def applications(f, configured, depth=0):
        """set of (number of apply_middlewares calls, their middleware arguments) over the non-cache-hit returning executions."""
        try:
            _ev, exits = boolx.walk_under(f.node, lambda t: configured if MW.match(t) else None)
        except ValueError as e:
            raise AnalysisError("C16.H5: %s" % e)
        cn = Canon(f.node)
        out = set()
        for k, st, env in exits:
            if k != "return":
                continue
            if cache_read(st, env, f):
                continue
            totals = {(0, ())}
            for c in env.get(boolx.CALLS, ()):
                if isinstance(c.func, ast.Name) and c.func.id == "apply_middlewares":
                    arg = cn.text(c.args[1]) if len(c.args) > 1 else "?"
                    totals = {(n + 1, a + (arg,)) for n, a in totals}
                elif depth < 2 and isinstance(c.func, (ast.Name, ast.Attribute)):
                    cal = [x for x in prog.resolve_call(f, c) if x.module is f.module and x.name not in ("field_resolver", "__init__")]
                    if len(cal) == 1 and any(isinstance(y, ast.Call) and isinstance(y.func, ast.Name) and y.func.id == "apply_middlewares"
                                             for y in ast.walk(cal[0].node)):
                        run.looked_at(cal[0])
                        sub = applications(cal[0], configured, depth + 1)
                        totals = {(n + m, a + b) for n, a in totals for m, b in sub}
            out |= totals
        return out
    got = applications(fr, True)
    r.instance("field_resolver, middlewares configured: apply_middlewares applications per cache-miss execution %s" % sorted(got))
    shapes.require(bool(got), "C16.H5: no cache-miss return path found in field_resolver")
    if any(n == 0 for n, _a in got):
        run.report(r, "%s:Executor.field_resolver:path-without-middlewares" % EXE, fr.where(),
                   "with middlewares configured, field_resolver can return a resolver that did not go through apply_middlewares: "
                   "those fields are resolved outside every middleware")
    elif any(n != 1 for n, _a in got):
        run.report(r, "%s:Executor.field_resolver:applications" % EXE, fr.where(), "apply_middlewares is applied %s times on a cache miss" % sorted({n for n, _a in got}))
    elif any(not MW.match(a) for _n, args in got for a in args):
        run.report(r, "%s:Executor.field_resolver:which-middlewares" % EXE, fr.where(), "not the configured middlewares: %s" % sorted({a for _n, args in got for a in args}))
    # cache discipline: a hit returns the cached value (checked by the cache rules); on a miss the stored value is the returned one
    try:
        _ev, fexits = boolx.walk_under(fr.node, lambda t: None)
    except ValueError as e:
        raise AnalysisError("C16.H5: %s" % e)
    for k, st, env in fexits:
        if k != "return" or cache_read(st, env, fr):
            continue
        atoms = {a: b for a, b in env.items() if a not in boolx.META}
        stmts = env.get(boolx.STMTS, ())
        stores = [x for x in stmts if isinstance(x, ast.Assign) and isinstance(x.targets[0], ast.Subscript)
                  and "_resolver_cache" in ast.unparse(boolx.path_subst(x.targets[0].value, boolx.path_env(stmts, x)))]
        in_handler = any(h.type is not None and "KeyError" in ast.unparse(h.type) for h in env.get(boolx.HANDLERS, ()))
        if not in_handler:
            run.report(r, "%s:Executor.field_resolver:not-on-miss" % EXE, fr.where(st), "a resolver is built outside the cache-miss branch (middlewares re-applied on every call)")
            break
        ret = ast.unparse(boolx.path_value(stmts, st, st.value, atoms))
        if not stores or ast.unparse(boolx.path_value(stmts, stores[-1], stores[-1].value, atoms)) != ret:
            run.report(r, "%s:Executor.field_resolver:store" % EXE, fr.where(st), "the middleware-wrapped resolver is not the value stored in / returned from the cache")
            break
    for mod, q in ((EXE, "Executor.resolve_field"), (BEXE, "BlockingExecutor.resolve_field")):
        f = prog.get_func(mod, q)
        from ..canon import Canon
        canon = Canon(f.node)
        inv = [n for fn in [f] + list(f.nested.values()) for n in own_nodes(fn.node)
               if isinstance(n, ast.Call) and any(k.arg is None and canon.text(k.value).startswith("self.argument_values(") for k in n.keywords)]
        r.instance("%s invokes `%s` with the coerced arguments" % (q, canon.func_text(inv[0]) if inv else None))
        if len(inv) != 1 or not canon.func_text(inv[0]).startswith("self.field_resolver(parent_type, field_definition)"):
            run.report(r, "%s:%s:resolver-source" % (mod, q), f.where(), "the resolver invoked is not the one returned by field_resolver (middlewares bypassed)")
