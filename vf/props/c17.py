"""C17 — subscriptions: refusals before any event, per-event isolation, stream adapter."""
import ast

from .. import shapes
from ..cfg import event_paths
from ..model import AnalysisError, own_nodes, norm_stmt

SUB = "py_gql.execution.subscribe"
AIO = "py_gql.execution.runtime.asyncio"
WRAP = "py_gql.execution.wrappers"


def refuses_when_true(test):
    """Does the guard refuse when its test is TRUE?  `x != want`, `len(..) != 1`, `y is None`, `not isinstance(..)` do; their
    accepting spellings (`==`, `is not None`, `isinstance(..)`) refuse when false - whichever branch the raise is written in."""
    neg = False
    while isinstance(test, ast.UnaryOp) and isinstance(test.op, ast.Not):
        test, neg = test.operand, not neg
    base = True
    if isinstance(test, ast.Compare) and len(test.ops) == 1:
        base = isinstance(test.ops[0], (ast.NotEq, ast.Is)) if not isinstance(test.ops[0], ast.IsNot) else False
        if isinstance(test.ops[0], ast.Eq):
            base = False
    elif isinstance(test, ast.Call) and isinstance(test.func, ast.Name) and test.func.id == "isinstance":
        base = False
    return base != neg


def check(prog, run):
    from . import c08 as _c08
    _c08.check_gather_bookkeeping(prog, run, "S7")   # = C08.R6: an event's list entries resolved under asyncio come back in their own slots
    sub = prog.get_func(SUB, "subscribe")
    cses = prog.get_func(SUB, "create_source_event_stream")
    ese = prog.get_func(SUB, "execute_subscription_event")
    for f in (sub, cses, ese):
        run.looked_at(f)

    # ---- S1 refusals dominate the subscription resolver
    r = run.rule("S1", "the four refusals (non-subscription operation, runtime without stream support, not exactly one root "
                       "field, missing subscription resolver) are raised on every path before the subscription resolver is "
                       "called / the source stream is created", 6)

    def guard_events(f, guards, action):
        """events: 'g:<name>' when a raise guarded by a test mentioning the guard text is *passed* (test false),
        'act' for the action call."""
        from ..canon import Canon
        gcn = Canon(f.node)

        def bev(test, truth):
            t = gcn.text(test)      # canonical: locals such as `fields` are replaced by what they were assigned
            for name, needle in guards.items():
                if needle(t):
                    return ("refuse:" if truth == refuses_when_true(test) else "pass:") + name
            return None

        def ev(n):
            if action(n):
                return "act"
            return None
        return event_paths(f.node, ev, branch_event=bev, may_raise=lambda n: None, cap=12)

    g_sub = {
        "operation-kind": lambda t: ".operation" in t and "'subscription'" in t,
        "stream-runtime": lambda t: "isinstance(runtime, SubscriptionRuntime)" in t,
    }
    normal, raised = guard_events(sub, g_sub, lambda n: isinstance(n, ast.Call) and isinstance(n.func, ast.Name) and n.func.id == "create_source_event_stream")
    for name in g_sub:
        present = any(("refuse:" + name) in s for s in raised) or any(("refuse:" + name) in s for s in normal)
        r.instance("subscribe: guard %s present: %s" % (name, present))
        if not present:
            run.report(r, "%s:subscribe:missing-guard(%s)" % (SUB, name), sub.where(), "subscribe() has no refusal for %s" % name)
    for seq in sorted(normal | raised):
        if "act" in seq:
            before = seq[:seq.index("act")]
            r.instance("subscribe path to stream creation %s" % list(before))
            for name in g_sub:
                if ("pass:" + name) not in before:
                    run.report(r, "%s:subscribe:guard-after-stream(%s)" % (SUB, name), sub.where(),
                               "a path reaches create_source_event_stream without having passed the %s refusal: %s" % (name, list(before)))
        for e in seq:
            if e.startswith("refuse:") and seq[-1].startswith("raise:") is False and "act" in seq and seq.index(e) < seq.index("act"):
                run.report(r, "%s:subscribe:refusal-not-raised(%s)" % (SUB, e[7:]), sub.where(), "the %s refusal branch does not raise" % e[7:])
    # polarity of the two guards: refusing branch must be the one that raises
    for n in own_nodes(sub.node):
        if isinstance(n, ast.If) and (shapes.raises_unconditionally(n.body) or (n.orelse and shapes.raises_unconditionally(n.orelse))):
            t = ast.unparse(n.test)
            raise_in_body = shapes.raises_unconditionally(n.body)
            for gname, what in (("operation-kind", "operations"), ("stream-runtime", "runtimes")):
                if g_sub[gname](t):
                    r.instance("%s guard `%s` (raises in the %s branch)" % (gname, t, "true" if raise_in_body else "false"))
                    if refuses_when_true(n.test) != raise_in_body:
                        run.report(r, "%s:subscribe:guard-polarity(%s)" % (SUB, gname), sub.where(n), "`%s` refuses the wrong %s" % (t, what))
    g_c = {
        "single-root-field": lambda t: "len(" in t and ".collect_fields(" in t,
        "subscription-resolver": lambda t: "subscription_resolver" in t and "None" in t,
    }
    normal, raised = guard_events(cses, g_c, lambda n: isinstance(n, ast.Call) and isinstance(n.func, ast.Attribute) and n.func.attr == "subscription_resolver")
    for name in g_c:
        present = any(("refuse:" + name) in s for s in raised)
        r.instance("create_source_event_stream: refusal %s raises: %s" % (name, present))
        if not present:
            run.report(r, "%s:create_source_event_stream:missing-guard(%s)" % (SUB, name), cses.where(), "no raising refusal for %s" % name)
    for seq in sorted(normal | raised):
        if "act" in seq:
            before = seq[:seq.index("act")]
            r.instance("path to the subscription resolver %s" % list(before))
            for name in g_c:
                if ("pass:" + name) not in before:
                    run.report(r, "%s:create_source_event_stream:unguarded-call(%s)" % (SUB, name), cses.where(),
                               "the subscription resolver is reachable without passing the %s refusal" % name)
    import re
    from ..canon import Canon
    ccn = Canon(cses.node)
    for n in own_nodes(cses.node):
        if isinstance(n, ast.If) and g_c["single-root-field"](ccn.text(n.test)):
            t = ccn.text(n.test)
            r.instance("single-root-field test `%s`" % t)
            if not re.match(r"^len\(\w+\.collect_fields\(.*\)\) (!=|==) 1$", t):
                run.report(r, "%s:create_source_event_stream:guard-shape(single-root-field)" % SUB, cses.where(n), "the refusal test is `%s`, not len(fields) != 1" % t)
        if isinstance(n, ast.If) and "subscription_resolver" in ast.unparse(n.test):
            t = ast.unparse(n.test)
            r.instance("subscription-resolver test `%s`" % t)
            if not (isinstance(n.test, ast.Compare) and isinstance(n.test.ops[0], ast.Is) and shapes.raises_unconditionally(n.body)):
                run.report(r, "%s:create_source_event_stream:guard-shape(subscription-resolver)" % SUB, cses.where(n), "the refusal test is `%s`" % t)

    # ---- S2 per-event isolation
    r = run.rule("S2", "execute_subscription_event clears the error list before executing the selection, executes it with the "
                       "event as root value, and builds the result from a copy of the error list", 4)

    from ..canon import Canon
    ecn = Canon(ese.node)

    def ev(n):
        if isinstance(n, ast.Call):
            ft = ecn.func_text(n)
            if ft.endswith(".clear_errors"):
                return "clear"
            if ft.endswith(".execute_fields"):
                return "execute"
        return None
    normal, raised = event_paths(ese.node, ev, may_raise=lambda n: None)
    for seq in sorted(normal):
        r.instance("event path %s" % list(seq))
        if list(seq) != ["clear", "execute"]:
            run.report(r, "%s:execute_subscription_event:path(%s)" % (SUB, ">".join(seq)), ese.where(),
                       "per-event path is %s (expected clear then execute): errors of earlier events leak into this event's result" % list(seq))
    ef = [n for n in own_nodes(ese.node) if isinstance(n, ast.Call) and ecn.func_text(n).endswith(".execute_fields")]
    if ef:
        root_arg = ecn.text(ef[0].args[1]) if len(ef[0].args) > 1 else None
        r.instance("execute_fields root value argument: %s" % root_arg)
        if root_arg != ese.params[3]:
            run.report(r, "%s:execute_subscription_event:root-value" % SUB, ese.where(ef[0]), "the event is not the root value of the per-event execution (got %s)" % root_arg)
    # result errors come from a copy
    res_calls = [n for n in ast.walk(ese.node) if isinstance(n, ast.Call) and isinstance(n.func, ast.Name) and n.func.id == "GraphQLResult"]
    shapes.require(res_calls, "C17.S2: GraphQLResult construction not found")
    for c in res_calls:
        ekw = [k.value for k in c.keywords if k.arg == "errors"]
        r.instance("result errors source `%s`" % (ast.unparse(ekw[0]) if ekw else None))
        if not ekw:
            run.report(r, "%s:execute_subscription_event:no-errors" % SUB, ese.where(c), "the per-event result carries no errors")
            continue
        src = ekw[0]
        if isinstance(src, ast.Attribute) and src.attr == "errors":
            # property must return a copy
            rc = prog.get_class(WRAP, "ResolutionContext")
            prop = rc.find_method("errors")
            shapes.require(prop is not None, "C17.S2: ResolutionContext.errors not found")
            rets = [x for x in own_nodes(prop.node) if isinstance(x, ast.Return)]
            txt = ast.unparse(rets[0].value) if rets else ""
            r.instance("ResolutionContext.errors returns `%s`" % txt)
            if not (txt.endswith("[:]") or txt.startswith("list(") or txt.startswith("tuple(") or ".copy()" in txt):
                run.report(r, "%s:ResolutionContext.errors:aliases" % WRAP, prop.where(), "`errors` hands out the live list that clear_errors() empties in place: earlier results lose their errors")
        elif isinstance(src, ast.Attribute) and src.attr == "_errors":
            run.report(r, "%s:execute_subscription_event:aliases" % SUB, ese.where(c), "the result shares the executor's live error list")
    rc = prog.get_class(WRAP, "ResolutionContext")
    ce = rc.find_method("clear_errors")
    shapes.require(ce is not None, "C17.S2: clear_errors not found")
    txt = " ".join(ast.unparse(s) for s in ce.node.body if not (isinstance(s, ast.Expr) and isinstance(s.value, ast.Constant)))
    r.instance("clear_errors body `%s`" % txt)
    if not any(w in txt for w in ("self._errors[:] = []", "self._errors = []", "self._errors.clear()", "del self._errors[:]")):
        run.report(r, "%s:ResolutionContext.clear_errors:noop" % WRAP, ce.where(), "clear_errors does not empty the error list")

    # ---- S3 stream adapter
    r = run.rule("S3", "AsyncMap.__anext__ awaits exactly one source item, applies the mapper to it once and lets "
                       "StopAsyncIteration propagate; map_stream returns AsyncMap(source, mapper); subscribe maps the source stream "
                       "with the per-event function", 4)
    # the adapter is an object with a stateless __anext__, not an async generator: a generator is finalised by the first
    # exception that passes through a pending __anext__ (a cancelled wait), and the stream then ends with events still to come
    ms0 = prog.get_func(AIO, "AsyncIORuntime.map_stream")
    for x in own_nodes(ms0.node):
        if isinstance(x, ast.Return) and isinstance(x.value, ast.Call):
            for cal in prog.resolve_call(ms0, x.value):
                if isinstance(cal.node, ast.AsyncFunctionDef) and any(isinstance(y, ast.Yield) for y in ast.walk(cal.node)):
                    run.report(r, "%s:AsyncIORuntime.map_stream:async-generator(%s)" % (AIO, cal.name), ms0.where(x),
                               "map_stream hands back the async generator %s: an exception passing through a pending __anext__ (the consumer "
                               "cancelling a wait) finalises it, and the response stream ends while the source still has events" % cal.name)
    if any(isinstance(y, ast.Yield) for y in own_nodes(ms0.node)):
        run.report(r, "%s:AsyncIORuntime.map_stream:async-generator(map_stream)" % AIO, ms0.where(),
                   "map_stream is itself a generator: the response stream is finalised by the first exception passing through it")
    try:
        am = prog.get_class(AIO, "AsyncMap")
    except AnalysisError:
        if run.findings:
            return
        raise
    an = am.methods.get("__anext__")
    shapes.require(an is not None, "C17.S3: AsyncMap.__anext__ not found")
    run.looked_at(an)
    from ..canon import inline_simple_call
    acn = Canon(an.node)
    srcs, maps = [], []
    for n in own_nodes(an.node):
        if not isinstance(n, ast.Call):
            continue
        ft = acn.func_text(n)
        if "__anext__" in ft:
            srcs.append(n)
        elif ft == "self.map_value":
            maps.append(n)
        else:
            inl = inline_simple_call(prog, an, acn.expr(n))   # a small helper that starts the source's __anext__
            if inl is not None and "__anext__" in ast.unparse(inl):
                srcs.append(n)
    r.instance("__anext__: source pulls %d, mapper applications %d" % (len(srcs), len(maps)))
    if len(srcs) != 1 or len(maps) != 1:
        run.report(r, "%s:AsyncMap.__anext__:shape" % AIO, an.where(), "__anext__ pulls %d source items and applies the mapper %d times per result" % (len(srcs), len(maps)))
    else:
        pos = (srcs[0].lineno, srcs[0].col_offset)
        inside = any(isinstance(x, ast.Call) and (getattr(x, "lineno", None), getattr(x, "col_offset", None)) == pos
                     for a in maps[0].args for x in ast.walk(acn.expr(a)))
        if not inside:
            run.report(r, "%s:AsyncMap.__anext__:mapping" % AIO, an.where(), "the mapper is not applied to the pulled source item")
        if any(isinstance(n, (ast.For, ast.While, ast.AsyncFor)) for n in ast.walk(an.node)):
            run.report(r, "%s:AsyncMap.__anext__:loop" % AIO, an.where(), "__anext__ loops over the source")
    for n in ast.walk(an.node):
        if isinstance(n, ast.ExceptHandler):
            names = ast.unparse(n.type) if n.type is not None else "BaseException"
            r.instance("__anext__ handler %s" % names)
            if any(w in names for w in ("StopAsyncIteration", "Exception", "BaseException")) and not any(isinstance(x, ast.Raise) for x in ast.walk(n)):
                run.report(r, "%s:AsyncMap.__anext__:swallows-end" % AIO, an.where(n), "a handler can swallow StopAsyncIteration: the response stream never ends")
    ms = prog.get_func(AIO, "AsyncIORuntime.map_stream")
    rets = [x for x in own_nodes(ms.node) if isinstance(x, ast.Return)]
    txt = Canon(ms.node).text(rets[0].value) if rets else ""
    r.instance("map_stream returns `%s`" % txt)
    if txt != "AsyncMap(%s, %s)" % (ms.params[1], ms.params[2]):
        run.report(r, "%s:AsyncIORuntime.map_stream:shape" % AIO, ms.where(), "map_stream returns `%s`" % txt)
    osc = sub.nested.get("_on_stream_created")
    shapes.require(osc is not None, "C17.S3: _on_stream_created not found")
    mcalls = [n for n in ast.walk(osc.node) if isinstance(n, ast.Call) and isinstance(n.func, ast.Attribute) and n.func.attr == "map_stream"]
    r.instance("_on_stream_created maps with `%s`" % (ast.unparse(mcalls[0]) if mcalls else None))
    scn = Canon(sub.node)
    margs = [scn.text(a) for a in mcalls[0].args] if len(mcalls) == 1 else []
    if len(margs) != 2 or margs[0] != "$p0":
        run.report(r, "%s:subscribe._on_stream_created:mapping" % SUB, osc.where(), "the source stream is not mapped with the per-event function")
    r.instance("per-event function `%s`" % (margs[1][:80] if len(margs) == 2 else None))
    if len(margs) == 2 and not (margs[1].replace(" ", "").startswith("ft.partial(execute_subscription_event,") or margs[1].replace(" ", "").startswith("functools.partial(execute_subscription_event,")
                                or margs[1].startswith("lambda") and "execute_subscription_event(" in margs[1]):
        run.report(r, "%s:subscribe:_on_event" % SUB, sub.where(), "the per-event function is not execute_subscription_event bound to this operation")

    # ---- S4 recorded, not judged
    r = run.rule("S4", "middlewares are forced to [] for subscriptions (documented behaviour; recorded, not judged)", 1)
    kw = [k for n in own_nodes(sub.node) if isinstance(n, ast.Call) for k in n.keywords if k.arg == "middlewares"]
    r.instance("subscribe passes middlewares=%s" % (ast.unparse(kw[0].value) if kw else None))

    # ---- S5 executor memo tables live across all events of one subscription (shared with C04.H2)
    from . import c04
    c04.check_memo_keys(prog, run, "S5")

    # ---- S6 the executor runs with the coerced variables
    check_coerced_variables(prog, run, "S6", [sub])


def check_coerced_variables(prog, run, rule_id, entries):
    """The variables handed to the executor are coerce_variable_values(schema, operation, ...) on every execution."""
    from .. import boolx
    r = run.rule(rule_id, "%s: on every execution that constructs the executor, the variables it is given (third positional "
                          "argument / `variables=`) are — path value, local aliases followed — the result of "
                          "coerce_variable_values(schema, operation, <request variables>): declared variable defaults are applied "
                          "there, so a request without variables must go through it as well (no shortcut to {} or to the raw mapping)"
                 % ", ".join(e.qualname for e in entries), len(entries))
    for f in entries:
        a = f.node.args
        params = [x.arg for x in a.posonlyargs + a.args + a.kwonlyargs]
        sch, doc = params[0], params[1]
        try:
            _ev, exits = boolx.walk_under(f.node, lambda t: None)
        except ValueError as e:
            raise AnalysisError("C17.%s: %s" % (rule_id, e))
        n_ctor = 0
        bad = {}
        for kind, st, env in exits:
            stmts = env.get(boolx.STMTS, ())
            for c in env.get(boolx.CALLS, ()):
                if not (len(c.args) >= 2 and isinstance(c.args[0], ast.Name) and c.args[0].id == sch
                        and isinstance(c.args[1], ast.Name) and c.args[1].id == doc and isinstance(c.func, ast.Name) and c.func.id in params):
                    continue
                holder = c
                while holder is not None and not isinstance(holder, ast.stmt):
                    holder = getattr(holder, "_parent", None)
                arg = c.args[2] if len(c.args) >= 3 else next((k.value for k in c.keywords if k.arg == "variables"), None)
                n_ctor += 1
                if arg is None:
                    bad.setdefault("<none>", c)
                    continue
                v = boolx.path_subst(arg, boolx.path_env(stmts, holder))
                ok = isinstance(v, ast.Call) and isinstance(v.func, ast.Name) and v.func.id == "coerce_variable_values" and len(v.args) >= 2 \
                    and isinstance(v.args[0], ast.Name) and v.args[0].id == sch
                if ok:
                    rr = prog.resolve_name(f.module, "coerce_variable_values")
                    ok = bool(rr) and rr[0] == "func" and rr[1].module.name == "py_gql.utilities.coerce_value"
                if not ok:
                    bad.setdefault(" ".join(ast.unparse(v).split())[:90], c)
        r.instance("%s: executor constructed on %d executions" % (f.qualname, n_ctor))
        if not n_ctor:
            raise AnalysisError("C17.%s: executor construction not found in %s" % (rule_id, f.qualname))
        for t, c in sorted(bad.items()):
            run.report(r, "%s:%s:executor-variables" % (f.module.name, f.qualname), f.where(c),
                       "%s can construct the executor with variables `%s`, which is not the result of coerce_variable_values(...): "
                       "declared defaults are not applied (and required variables not demanded) on that execution" % (f.qualname, t))
