"""C18 — AST visitors: dispatch coverage, child traversal, enter/leave wrapper,
chaining (lang/visitor.py, _utils.map_and_filter)."""
import ast

from .. import boolx, nodeshape, shapes
from ..model import AnalysisError, own_nodes, norm_stmt

VIS = "py_gql.lang.visitor"


def routed_classes(prog, visitor_cls):
    """_visit_X method name -> set of node classes routed to it by the
    classdispatch registries of ASTVisitor (visit, _visit_definition, ...)."""
    routes = {}
    regs = []
    for name, m in visitor_cls.methods.items():
        for reg in nodeshape.dispatch_registries(m):
            regs.append((m, reg))
            for cname, h, v in reg.entries:
                if h:
                    routes.setdefault(h, set()).add(cname)
    return routes, regs


def _guards(node):
    """Branches (if/while/for/try bodies, handlers) enclosing ``node`` inside its function."""
    out = set()
    cur = node
    while getattr(cur, "_parent", None) is not None and not isinstance(cur, (ast.FunctionDef, ast.AsyncFunctionDef, ast.Lambda)):
        par = cur._parent
        if isinstance(par, (ast.If, ast.While, ast.For, ast.IfExp, ast.Try, ast.ExceptHandler)) and cur is not getattr(par, "test", None) \
                and cur is not getattr(par, "iter", None):
            branch = "body"
            if isinstance(par, ast.IfExp):
                branch = "body" if cur is par.body else "orelse"
            elif cur in getattr(par, "orelse", []):
                branch = "orelse"
            elif cur in getattr(par, "finalbody", []):
                branch = "finally"
            if not (isinstance(par, ast.Try) and branch in ("body", "finally")):
                out.add((id(par), branch))
        cur = par
    return out


def traversals(fi, param, prog=None, selfname="self", _depth=0):
    """List of (slot, line, assigned_back, expr) for visits of ``param.slot``:
    calls of self._visit_* / map_and_filter(self._visit_*, param.slot) in fi."""
    out = []
    from ..canon import Canon
    cn = Canon(fi.node)
    for n in own_nodes(fi.node):
        if not isinstance(n, ast.Call):
            continue
        f = cn.expr(n.func)
        slot = None
        if isinstance(f, ast.Attribute) and isinstance(f.value, ast.Name) and f.value.id == selfname and f.attr.startswith("_visit"):
            for a in [cn.expr(x) for x in n.args]:
                if isinstance(a, ast.Attribute) and isinstance(a.value, ast.Name) and a.value.id == param:
                    slot = a.attr
        elif isinstance(f, ast.Name) and f.id in ("map_and_filter", "map", "filter") and len(n.args) == 2:
            fn, it = [cn.expr(x) for x in n.args]
            if isinstance(fn, ast.Attribute) and isinstance(fn.value, ast.Name) and fn.value.id == selfname and fn.attr.startswith("_visit"):
                if isinstance(it, ast.Attribute) and isinstance(it.value, ast.Name) and it.value.id == param:
                    slot = it.attr
        if slot is None and prog is not None and _depth < 2 and not (isinstance(f, ast.Attribute) and f.attr.startswith("_visit")):
            # the node handed to a helper (module function or non-_visit method) that traverses some of its slots
            idx = [i for i, a in enumerate(n.args) if isinstance(a, ast.Name) and a.id == param]
            if idx and not n.keywords:
                for callee in prog.resolve_call(fi, n):
                    if callee.module is not fi.module or callee.name == "__init__":
                        continue
                    ps = callee.params
                    off = 1 if (callee.cls is not None and ps and ps[0] in ("self", "cls")) else 0
                    if idx[0] + off >= len(ps):
                        continue
                    sub_self = ps[0] if off else None
                    if not off:
                        sidx = [i for i, a in enumerate(n.args) if isinstance(a, ast.Name) and a.id == selfname]
                        sub_self = ps[sidx[0]] if sidx and sidx[0] < len(ps) else None
                    if sub_self is None:
                        continue
                    for sslot, _l, sback, _n in traversals(callee, ps[idx[0] + off], prog, sub_self, _depth + 1):
                        out.append((sslot, n.lineno, sback, n))
            continue
        if slot is None:
            continue
        # is an enclosing call also a traversal (list(map_and_filter(...)))? take the outermost expression's statement
        st = n
        while getattr(st, "_parent", None) is not None and not isinstance(st, ast.stmt):
            st = st._parent
        back = False
        # written back: some assignment to param.slot receives (directly or through locals) the value of this very call
        for a in own_nodes(fi.node):
            if isinstance(a, ast.Assign) and len(a.targets) == 1:
                t = a.targets[0]
                if isinstance(t, ast.Attribute) and isinstance(t.value, ast.Name) and t.value.id == param and t.attr == slot:
                    v = cn.expr(a.value)
                    if any(isinstance(x, ast.Call) and (getattr(x, "lineno", None), getattr(x, "col_offset", None)) == (n.lineno, n.col_offset)
                           for x in ast.walk(v)) and _guards(a) <= _guards(n):
                        # (and under no more conditions than the traversal itself: a conditional write-back loses edits)
                        back = True
        out.append((slot, n.lineno, back, n))
    # de-duplicate nested hits on the same statement/slot
    seen, res = set(), []
    for slot, line, back, n in sorted(out, key=lambda x: (x[1], x[3].col_offset)):
        st = n
        while getattr(st, "_parent", None) is not None and not isinstance(st, ast.stmt):
            st = st._parent
        k = (slot, id(st))
        if k in seen:
            continue
        seen.add(k)
        res.append((slot, line, back, n))
    return res


_HIER = {}


def check(prog, run):
    ncs = nodeshape.node_classes(prog)
    children = nodeshape.child_slots(prog)
    visitor = prog.get_class(VIS, "ASTVisitor")
    disp = prog.get_class(VIS, "DispatchingVisitor")
    chained = prog.get_class(VIS, "ChainedVisitor")
    kinds = sorted(k for k in ncs if k != "Name")
    routes, regs = routed_classes(prog, visitor)

    # ---- V1 dispatch tables
    r = run.rule("V1", "ASTVisitor dispatch registries name existing methods and route every node kind (except Name) "
                       "the parser constructs; DispatchingVisitor.enter/leave have one existing handler per kind", 120)
    routed_all = set()
    for h, cs in routes.items():
        routed_all |= cs
    for m, reg in regs:
        run.looked_at(m)
        for cname, h, v in reg.entries:
            r.instance("%s: %s -> %s" % (m.qualname, cname, h))
            if cname not in ncs:
                run.report(r, "%s:%s:unknown-class(%s)" % (VIS, m.qualname, cname), m.where(reg.call), "registry key %s is not a concrete node class" % cname)
            if h is None or visitor.find_method(h) is None:
                run.report(r, "%s:%s:dangling(%s)" % (VIS, m.qualname, cname), m.where(reg.call), "registry entry for %s names no method" % cname)
    # every kind must be reachable by some routing: either in a registry or visited through a typed _visit_* call
    direct = set()
    for name, m in visitor.methods.items():
        if name.startswith("_visit") and len(m.params) > 1:
            a = m.node.args.args[1]
            direct_k = nodeshape.ann_classes(a.annotation)
            for k in direct_k:
                if k in ncs:
                    direct.add(k)
                else:
                    try:
                        direct.update(nodeshape.concrete_subclasses(prog, k))
                    except KeyError:
                        pass
    for k in kinds:
        r.instance("kind %s routed" % k)
        if k not in routed_all and k not in direct:
            run.report(r, "%s:ASTVisitor:unrouted(%s)" % (VIS, k), visitor.methods["visit"].where(), "node kind %s is never routed to a _visit_* method" % k)
    for which in ("enter", "leave"):
        m = disp.methods.get(which)
        shapes.require(m is not None, "C18.V1: DispatchingVisitor.%s missing" % which)
        run.looked_at(m)
        rg = nodeshape.dispatch_registries(m)
        shapes.require(len(rg) == 1, "C18.V1: DispatchingVisitor.%s has no single registry" % which)
        have = {}
        for cname, h, v in rg[0].entries:
            have[cname] = h
            r.instance("DispatchingVisitor.%s: %s -> %s" % (which, cname, h))
            if h is None or disp.find_method(h) is None:
                run.report(r, "%s:DispatchingVisitor.%s:dangling(%s)" % (VIS, which, cname), m.where(rg[0].call), "handler for %s does not exist" % cname)
            elif not h.startswith(which + "_"):
                run.report(r, "%s:DispatchingVisitor.%s:wrong-phase(%s)" % (VIS, which, cname), m.where(rg[0].call),
                           "%s of %s is dispatched to %s" % (which, cname, h))
        for k in kinds:
            if k not in have:
                run.report(r, "%s:DispatchingVisitor.%s:no-entry(%s)" % (VIS, which, k), m.where(rg[0].call),
                           "DispatchingVisitor.%s has no entry for %s: visiting such a node raises TypeError" % (which, k))
    # enter/leave tables pair the same handler suffix per class
    e = {c: h for c, h, _ in nodeshape.dispatch_registries(disp.methods["enter"])[0].entries}
    l = {c: h for c, h, _ in nodeshape.dispatch_registries(disp.methods["leave"])[0].entries}
    for c in sorted(set(e) & set(l)):
        r.instance("pair %s: %s/%s" % (c, e[c], l[c]))
        if e[c] and l[c] and e[c][len("enter_"):] != l[c][len("leave_"):]:
            run.report(r, "%s:DispatchingVisitor:mismatched-pair(%s)" % (VIS, c), disp.methods["leave"].where(),
                       "%s is entered through %s but left through %s" % (c, e[c], l[c]))

    # ---- V2 child traversal completeness / order / write-back
    r = run.rule("V2", "each _visit_X traverses every child-bearing slot (as filled by the parser, Name children "
                       "excluded) of every class routed to it, in parser fill order, and assigns the result back", 60)
    for h in sorted(routes):
        m = visitor.find_method(h)
        if m is None or len(m.params) < 2:
            continue
        run.looked_at(m)
        param = m.params[1]
        trs = traversals(m, param, prog)
        # class-specific branches: isinstance(param, _ast.K) guards
        def guarded_classes(node):
            cur = node
            res = None
            while getattr(cur, "_parent", None) is not None:
                par = cur._parent
                if isinstance(par, ast.If) and cur in par.body:
                    for names, _ in shapes.class_tests(par.test, param):
                        res = set(names) if res is None else (res & set(names))
                cur = par
            return res
        from .. import dispatch
        hier18 = _HIER.get(id(prog)) or _HIER.setdefault(id(prog), dispatch.Hierarchy(prog))
        for cname in sorted(routes[h]):
            want = children.get(cname, [])
            got = []
            # a traversal counts for class cname when its call is evaluated on some execution of the method for a node of
            # exactly that class (path enumeration: elif chains, nested else/if and negated tests are all the same)
            try:
                reach = {id(c) for _k, _st, env in dispatch.executions(hier18, m, param, cname) for c in env.get(boolx.CALLS, ())}
            except AnalysisError:
                reach = None
            for slot, line, back, n in trs:
                if reach is not None:
                    if id(n) not in reach:
                        continue
                else:
                    g = guarded_classes(n)
                    if g is not None and cname not in g:
                        continue
                got.append((slot, line, back, n))
            got_slots = [s for s, _, _, _ in got]
            for slot in want:
                r.instance("%s: %s.%s traversed" % (h, cname, slot))
                if slot not in got_slots:
                    run.report(r, "%s:ASTVisitor.%s:untraversed(%s.%s)" % (VIS, h, cname, slot), m.where(),
                               "%s never visits %s.%s: nodes under it get no enter/leave and edits there are impossible"
                               % (h, cname, slot))
            for slot, line, back, n in got:
                if slot in want:
                    # the traversal may depend only on the node's class and on that slot being present
                    from ..canon import Canon
                    mcn = Canon(m.node)
                    for cond in _enclosing_conditions(m, n):
                        for atom in boolx.atoms(mcn.expr(cond)):   # locals naming the slot (or a test on it) are seen through
                            a = atom
                            ok = ("isinstance(%s" % param) in a or ("%s.__class__" % param) in a or ("type(%s)" % param) in a \
                                or (("%s.%s" % (param, slot)) in a and a.count("%s." % param) == a.count("%s.%s" % (param, slot)))
                            if not ok:
                                run.report(r, "%s:ASTVisitor.%s:conditional-traversal(%s.%s)" % (VIS, h, cname, slot), m.where(n),
                                           "%s visits %s.%s only when `%s`, a condition that is not about that slot: for the other nodes "
                                           "the children under %s.%s get no enter/leave and cannot be edited" % (h, cname, slot, a, cname, slot))
                    r.instance("%s: %s.%s written back" % (h, cname, slot))
                    if not back:
                        run.report(r, "%s:ASTVisitor.%s:result-discarded(%s.%s)" % (VIS, h, cname, slot), m.where(n),
                                   "the visited value of %s.%s is not assigned back: a replacement or deletion returned by a "
                                   "visitor is lost" % (cname, slot), {"stmt": norm_stmt(n)})
            order = [s for s in got_slots if s in want]
            expected = [s for s in want if s in order]
            # keep first occurrence
            seen, o2 = set(), []
            for s in order:
                if s not in seen:
                    seen.add(s)
                    o2.append(s)
            r.instance("%s: order for %s %s" % (h, cname, o2))
            if o2 != expected:
                run.report(r, "%s:ASTVisitor.%s:order(%s:%s)" % (VIS, h, cname, ">".join(o2)), m.where(),
                           "%s visits the children of %s in the order %s but they appear in the source in the order %s"
                           % (h, cname, o2, expected))
    # wrappers: _visit_type must recurse into ListType/NonNullType.type — covered by V2 through routes of _visit_type

    # ---- V3 wrapper shape
    r = run.rule("V3", "_visit_method wrapper: enter first; SkipNode returns without children or leave; children only "
                       "when enter returned a node; leave exactly once after children, only for a non-None result", 5)
    vm = prog.get_func(VIS, "_visit_method")
    wrapper = vm.nested.get("wrapper")
    shapes.require(wrapper is not None, "C18.V3: _visit_method.wrapper not found")
    run.looked_at(wrapper)
    from ..cfg import paths_events
    inst, node = wrapper.params[0], wrapper.params[1]

    def ev(n):
        if isinstance(n, ast.Call) and isinstance(n.func, ast.Attribute) and isinstance(n.func.value, ast.Name) and n.func.value.id == inst:
            if n.func.attr in ("enter", "leave"):
                return n.func.attr
        if isinstance(n, ast.Call) and isinstance(n.func, ast.Name) and n.func.id == "method":
            return "children"
        return None
    seqs = paths_events(wrapper.node, ev, handler_of={"SkipNode": "enter"})
    allowed = {("enter",), ("enter", "children"), ("enter", "children", "leave"), ("enter!SkipNode",)}
    for seq in sorted(seqs):
        r.instance("wrapper path events: %s" % (list(seq),))
        if tuple(seq) not in allowed:
            run.report(r, "%s:_visit_method.wrapper:path(%s)" % (VIS, ">".join(seq)), wrapper.where(),
                       "the enter/children/leave wrapper has a path with events %s (allowed: enter[,children[,leave]] or "
                       "enter raising SkipNode and nothing else)" % list(seq))
    for need in [("enter", "children", "leave"), ("enter!SkipNode",), ("enter",)]:
        r.instance("required path %s present" % (need,))
        if need not in {tuple(s) for s in seqs}:
            run.report(r, "%s:_visit_method.wrapper:missing-path(%s)" % (VIS, ">".join(need)), wrapper.where(),
                       "the wrapper has no path %s" % list(need))
    # value flow through the wrapper: what enter returned is what is traversed, what the traversal returned is what is
    # left and handed back to the parent (a replacement made by enter is the node whose children are visited)
    try:
        _ev, wexits = boolx.walk_under(wrapper.node, lambda t: None)
    except ValueError as e:
        raise AnalysisError("C18.V3: %s" % e)

    def norm_text(e):
        return " ".join(ast.unparse(e).split())
    enter_txt = "%s.enter(%s)" % (inst, node)
    flow_bad = None
    n_flow = 0
    for kind, st, env in wexits:
        stmts = env.get(boolx.STMTS, ())
        for c in env.get(boolx.CALLS, ()):
            holder = c
            while holder is not None and not isinstance(holder, ast.stmt):
                holder = getattr(holder, "_parent", None)
            penv = boolx.path_env(stmts, holder)
            if isinstance(c.func, ast.Name) and c.func.id == "method" and len(c.args) == 2:
                n_flow += 1
                got = norm_text(boolx.path_subst(c.args[1], penv))
                if got != enter_txt:
                    flow_bad = flow_bad or (c, "the traversal is applied to `%s` instead of the node enter returned" % got)
            if isinstance(c.func, ast.Attribute) and c.func.attr == "leave" and isinstance(c.func.value, ast.Name) and c.func.value.id == inst and c.args:
                n_flow += 1
                got = norm_text(boolx.path_subst(c.args[0], penv))
                if not got.startswith("method(%s, " % inst):
                    flow_bad = flow_bad or (c, "leave is called with `%s` instead of what the traversal returned" % got)
        if kind == "return" and st is not None and st.value is not None and not env.get(boolx.HANDLERS):
            got = norm_text(boolx.path_subst(st.value, boolx.path_env(stmts, st)))
            n_flow += 1
            if got == "None":
                # `return None` where the threaded value is known to be None on this execution
                penv = boolx.path_env(stmts, st)
                for atom, val in env.items():
                    if atom in boolx.META or not isinstance(atom, str):
                        continue
                    for suffix, want in ((" is None", True), (" is not None", False)):
                        if atom.endswith(suffix) and val is want and atom[:-len(suffix)] in penv:
                            got = norm_text(penv[atom[:-len(suffix)]])
            if not (got.startswith("method(%s, " % inst) or got == enter_txt):
                flow_bad = flow_bad or (st, "the wrapper returns `%s`, neither the traversal's result nor (when enter returned None) enter's" % got)
    r.instance("wrapper value flow: %d uses checked" % n_flow)
    if flow_bad is not None:
        run.report(r, "%s:_visit_method.wrapper:value-flow" % VIS, wrapper.where(flow_bad[0]),
                   "%s: a node substituted by enter (or by the traversal) is not the one that is traversed, left and put into the parent" % flow_bad[1])
    # every _visit_* that is a registry target or recursive visitor is decorated
    for name, m in visitor.methods.items():
        if name.startswith("_visit_") and any(name == h for h in routes):
            dec = [ast.unparse(d) for d in m.node.decorator_list]
            has_reg = bool(nodeshape.dispatch_registries(m))
            r.instance("%s decorated=%s" % (name, dec))
            if "_visit_method" not in dec and not has_reg:
                run.report(r, "%s:ASTVisitor.%s:undecorated" % (VIS, name), m.where(),
                           "%s is a dispatch target but is not wrapped by _visit_method: its nodes get no enter/leave" % name)

    # ---- V4 chaining
    r = run.rule("V4", "ChainedVisitor.enter threads each child's result into the next, stops at None and returns the "
                       "threaded value; leave iterates the children in reverse", 3)
    en, le = chained.methods.get("enter"), chained.methods.get("leave")
    shapes.require(en is not None and le is not None, "C18.V4: ChainedVisitor.enter/leave missing")
    run.looked_at(en)
    run.looked_at(le)
    loop = [n for n in own_nodes(en.node) if isinstance(n, ast.For)]
    shapes.require(len(loop) == 1, "C18.V4: ChainedVisitor.enter loop not found")
    loop = loop[0]
    r.instance("enter loop `%s`" % norm_stmt(loop))
    if _is_reversed(loop.iter):
        run.report(r, "%s:ChainedVisitor.enter:reversed" % VIS, en.where(loop), "enter iterates the visitors in reverse order")
    thread = None
    for n in ast.walk(loop):
        if isinstance(n, ast.Assign) and isinstance(n.value, ast.Call) and isinstance(n.value.func, ast.Attribute) and n.value.func.attr == "enter":
            if len(n.targets) == 1 and isinstance(n.targets[0], ast.Name) and n.value.args and isinstance(n.value.args[0], ast.Name) \
                    and n.value.args[0].id == n.targets[0].id:
                thread = n.targets[0].id
    r.instance("threaded variable %s" % thread)
    if thread is None:
        run.report(r, "%s:ChainedVisitor.enter:not-threaded" % VIS, en.where(loop),
                   "the value returned by one visitor's enter is not passed to the next visitor")
    else:
        rets = [n for n in own_nodes(en.node) if isinstance(n, ast.Return)]
        for rt in rets:
            r.instance("enter returns `%s`" % norm_stmt(rt))
            ok = isinstance(rt.value, ast.Name) and rt.value.id == thread
            if not ok and (rt.value is None or (isinstance(rt.value, ast.Constant) and rt.value.value is None)):
                # `return None` where the threaded value is known to be None (inside `if <thread> is None:`) is the same value
                cur = getattr(rt, "_parent", None)
                child = rt
                while cur is not None and cur is not en.node:
                    if isinstance(cur, ast.If) and any(child is b for b in cur.body) and " ".join(ast.unparse(cur.test).split()) == "%s is None" % thread:
                        ok = True
                    child, cur = cur, getattr(cur, "_parent", None)
            if not ok:
                run.report(r, "%s:ChainedVisitor.enter:returns-original" % VIS, en.where(rt),
                           "enter returns %s instead of the threaded value %s: a deletion or replacement made by a chained "
                           "visitor is lost" % (ast.unparse(rt.value) if rt.value else None, thread))
        # decided by executions of the loop body with the threaded value None: no child's enter is evaluated (whatever the form:
        # `if x is None: break`, `if x is not None: x = v.enter(x) / else: break`, a guard that continues)
        try:
            ev_none, _ex = boolx.walk_under(boolx.body_function(loop.body), lambda t: True if t.strip("()") == "%s is None" % thread else None)
        except ValueError as e:
            raise AnalysisError("C18.V4: %s" % e)
        stops = not any(isinstance(n, ast.Call) and isinstance(n.func, ast.Attribute) and n.func.attr == "enter" for n, _env in ev_none.values())
        r.instance("stops at None: %s" % stops)
        if not stops:
            run.report(r, "%s:ChainedVisitor.enter:continues-after-None" % VIS, en.where(loop), "later visitors are entered with None after a deletion")
    lloop = [n for n in own_nodes(le.node) if isinstance(n, ast.For)]
    shapes.require(len(lloop) == 1, "C18.V4: ChainedVisitor.leave loop not found")
    r.instance("leave loop `%s`" % norm_stmt(lloop[0]))
    if not _is_reversed(lloop[0].iter):
        run.report(r, "%s:ChainedVisitor.leave:not-reversed" % VIS, le.where(lloop[0]), "leave does not iterate the visitors in reverse order")

    # ---- V6 a traversal method hands back the node it was given
    r = run.rule("V6", "every method under the enter/children/leave wrapper (`@_visit_method`) ends every execution by returning the node it "
                       "was given (the parameter, never re-bound, or a local that only ever holds it): only `enter` may delete or replace a "
                       "node - a traversal method that answers None (or falls off its end) because of what happened to a *child* removes the "
                       "parent from its own parent and, through the wrapper, skips the parent's `leave`", 25)
    for name, m in sorted(visitor.methods.items()):
        decos = [ast.unparse(d) for d in getattr(m.node, "decorator_list", [])]
        if "_visit_method" not in decos or len(m.params) < 2:
            continue
        run.looked_at(m)
        param = m.params[1]
        stores = {}
        for n in own_nodes(m.node):
            if isinstance(n, ast.Name) and isinstance(n.ctx, (ast.Store, ast.Del)):
                stores.setdefault(n.id, []).append(n)
        holders = {param} if param not in stores else set()
        for n in own_nodes(m.node):
            if isinstance(n, ast.Assign) and len(n.targets) == 1 and isinstance(n.targets[0], ast.Name) \
                    and isinstance(n.value, ast.Name) and n.value.id == param and param in holders \
                    and len(stores.get(n.targets[0].id, [])) == 1:
                holders.add(n.targets[0].id)
        try:
            _ev, exits = boolx.walk_under(m.node, lambda t: None)
        except ValueError as e:
            raise AnalysisError("C18.V6: %s: %s" % (name, e))
        r.instance("%s returns %s" % (name, param))
        for kind, st, env in exits:
            if kind == "raise":
                continue
            ok = kind == "return" and isinstance(st.value, ast.Name) and st.value.id in holders
            if not ok:
                run.report(r, "%s:ASTVisitor.%s:returns-other(%s)" % (VIS, name, norm_stmt(st) if st is not None else "end"), m.where(st) if st is not None else m.where(),
                           "%s can end with `%s` rather than returning its node `%s`: the node is dropped from (or replaced in) its parent "
                           "for a reason other than what `enter` answered for it, and its `leave` is skipped"
                           % (name, norm_stmt(st) if st is not None else "falling off the end", param))
                break

    # ---- V5 map_and_filter
    from .. import typedrule
    typedrule.run_rule(prog, run, "T1", "lang/visitor.py", "a traversal must not raise on any parsed tree", ["py_gql.lang.visitor"], 25)

    r = run.rule("V5", "map_and_filter keeps order, applies the function once per element and drops exactly the None results", 1)
    used = set()
    for name, m in visitor.methods.items():
        for n in own_nodes(m.node):
            if isinstance(n, ast.Call) and isinstance(n.func, ast.Name) and n.func.id == "map_and_filter":
                for callee in prog.resolve_call(m, n):
                    used.add(callee)
    shapes.require(len(used) == 1, "C18.V5: the visitor's map_and_filter does not resolve to exactly one function (%s)" % sorted(x.key for x in used))
    maf = used.pop()
    run.looked_at(maf)
    # in-place editing of the list that is being iterated skips the element after a deletion
    it_param = maf.params[1] if len(maf.params) > 1 else None
    for n in own_nodes(maf.node):
        mutates = (isinstance(n, ast.Delete) and any(isinstance(t, ast.Subscript) and ast.unparse(t.value) == it_param for t in n.targets)) or \
                  (isinstance(n, ast.Call) and isinstance(n.func, ast.Attribute) and ast.unparse(n.func.value) == it_param and n.func.attr in ("pop", "remove", "insert", "clear"))
        if mutates:
            run.report(r, "%s:%s:mutates-iterated-list" % (maf.module.name, maf.qualname), maf.where(n),
                       "`%s` removes from the list it is iterating: the member following a deleted one is never visited (no enter/leave, "
                       "edits meant for it are lost)" % norm_stmt(n))
    rets = [n for n in own_nodes(maf.node) if isinstance(n, ast.Return)]
    ok = False
    if len(rets) == 1 and isinstance(rets[0].value, ast.ListComp):
        lc = rets[0].value
        txt = ast.unparse(lc)
        g = lc.generators
        if len(g) == 1 and len(g[0].ifs) == 1:
            cond = g[0].ifs[0]
            el = ast.unparse(lc.elt)
            if isinstance(cond, ast.Compare) and isinstance(cond.ops[0], ast.IsNot) and ast.unparse(cond.left) == el \
                    and ast.unparse(cond.comparators[0]) == "None":
                inner = g[0].iter
                f, it = maf.params[0], maf.params[1]
                if isinstance(inner, ast.GeneratorExp) and len(inner.generators) == 1 and not inner.generators[0].ifs \
                        and ast.unparse(inner.generators[0].iter) == it \
                        and ast.unparse(inner.elt) == "%s(%s)" % (f, ast.unparse(inner.generators[0].target)):
                    ok = True
                if isinstance(inner, ast.Call) and ast.unparse(inner) == "map(%s, %s)" % (f, it):
                    ok = True
    r.instance("map_and_filter body `%s`" % norm_stmt(rets[0]) if rets else "no return")
    if not ok:
        # semantic description of the pipeline, whatever its spelling (loop with append, helper, map/filter builtins)
        from .. import listpipe
        term = listpipe.describe_function(prog, maf)
        want = ("notnone", ("map", ("param", maf.params[0]), ("it", maf.params[1])))
        r.instance("map_and_filter computes %r" % (term,))
        if term == want:
            ok = True
        elif term is not None:
            run.report(r, "%s:map_and_filter:shape" % maf.module.name, maf.where(),
                       "map_and_filter computes %r, not the order-preserving map that drops exactly the None results %r" % (term, want))
            ok = True
    if not ok:
        # fall back to an abstract check: no sorted/reversed/set, filter is `is not None`
        fns, todo = [maf], [maf]
        while todo:
            cur = todo.pop()
            for c in own_nodes(cur.node):
                if isinstance(c, ast.Call):
                    for callee in prog.resolve_call(cur, c):
                        if callee.module is maf.module and callee not in fns and len(fns) < 4:
                            fns.append(callee)
                            todo.append(callee)
        for g in fns:
            run.looked_at(g)
        txt = "\n".join(ast.unparse(g.node) for g in fns)
        bad = [w for w in ("sorted(", "reversed(", "set(", "[::-1]") if w in txt]
        if bad or "is not None" not in txt:
            run.report(r, "%s:map_and_filter:shape" % maf.module.name, maf.where(),
                       "map_and_filter is not an order-preserving map that drops exactly None results (%s)" % (bad or "filter is not `is not None`"))
        elif not run.findings or not any(f.rule.endswith("V5") for f in run.findings):
            raise AnalysisError("C18.V5: map_and_filter has an unrecognised shape")


def _is_reversed(it):
    t = ast.unparse(it)
    return t.endswith("[::-1]") or t.startswith("reversed(")


def _enclosing_conditions(m, node):
    """Tests of the if/ternary statements the node is nested in (negated for else-branches is irrelevant here)."""
    out = []
    cur = node
    while getattr(cur, "_parent", None) is not None and cur is not m.node:
        par = cur._parent
        if isinstance(par, (ast.If, ast.IfExp)) and cur is not par.test:
            out.append(par.test)
        cur = par
    return out
