"""C19 — depth limiting (utilities/max_depth.py, utilities/collect_fields.py)."""
import ast

from .. import boolx, shapes
from ..model import AnalysisError, own_nodes, norm_stmt

MOD = "py_gql.utilities.max_depth"
CF = "py_gql.utilities.collect_fields"
KINDS = {"Field", "FragmentSpread", "InlineFragment"}


def reachable(prog, start, allowed_modules):
    seen, stack = {}, [start]
    while stack:
        fi = stack.pop()
        if fi.key in seen:
            continue
        seen[fi.key] = fi
        for c in shapes.calls_in(fi.node, own=False):
            for callee in prog.resolve_call(fi, c):
                if callee.module.name in allowed_modules and callee.key not in seen:
                    stack.append(callee)
    return list(seen.values())


def check(prog, run):
    from . import c04 as _c04
    _c04.check_collect_filtering(prog, run, "D10")   # = C04.K2: what @skip/@include exclude is not measured
    call = prog.get_func(MOD, "MaxDepthValidationRule.__call__")
    fns = reachable(prog, call, {MOD, CF})
    for f in fns:
        run.looked_at(f)
    names = {f.qualname for f in fns}
    shapes.require("selected_fields" in names, "C19: __call__ no longer reaches selected_fields")

    # ---- D1: max/min over possibly empty iterables
    r = run.rule("D1", "every max()/min() reachable from MaxDepthValidationRule.__call__ over a single "
                       "iterable argument has default= (an empty selection must not raise)", 1)
    for f in fns:
        for c in shapes.calls_in(f.node, own=False):
            if isinstance(c.func, ast.Name) and c.func.id in ("max", "min"):
                r.instance("%s: %s" % (f.qualname, norm_stmt(c)))
                if len(c.args) == 1 and not any(k.arg == "default" for k in c.keywords):
                    a = c.args[0]
                    nonempty = isinstance(a, (ast.List, ast.Tuple, ast.Set)) and len(a.elts) > 0
                    if isinstance(a, ast.Name):
                        # max(v) inside the true branch of `if v:` / `if len(v):` / `if len(v) > 0:` is guarded
                        cur, child = getattr(c, "_parent", None), c
                        while cur is not None and not isinstance(cur, (ast.FunctionDef, ast.AsyncFunctionDef, ast.Lambda)):
                            if isinstance(cur, ast.If) and any(child is st or any(child is x for x in ast.walk(st)) for st in cur.body) \
                                    and " ".join(ast.unparse(cur.test).split()) in (a.id, "len(%s)" % a.id, "len(%s) > 0" % a.id, "%s != []" % a.id):
                                nonempty = True
                            cur = getattr(cur, "_parent", None)
                    if not nonempty:
                        run.report(r, "%s:%s:%s(single iterable, no default)" % (f.module.name, f.qualname, c.func.id),
                                   f.where(c), "%s() over a possibly empty iterable without default= raises ValueError "
                                   "for an operation whose top-level fields have no sub-selection (flat query)" % c.func.id,
                                   {"stmt": norm_stmt(c)})

    # ---- D2: selection-kind exhaustiveness in the depth walk
    r = run.rule("D2", "every class test on elements of a .selections list in the depth walk covers "
                       "Field, FragmentSpread and InlineFragment (or ends in an explicit error)", 1)
    for s in shapes.selection_dispatch_sites(prog, fns):
        r.instance("%s (%s over %s): %s" % (s.fi.qualname, s.kind, s.var, sorted(s.classes)))
        missing = KINDS - s.classes
        if missing and s.default is None:
            run.report(r, "%s:%s:selection-dispatch(%s)" % (s.fi.module.name, s.fi.qualname, s.kind), s.fi.where(s.node),
                       "selection kinds %s are silently ignored: depth reached through them at this level is not measured"
                       % sorted(missing), {"handled": sorted(s.classes)})

    # ---- D3: operation-name filter
    r = run.rule("D3", "the operation_name filter skips an operation iff a name is configured and the operation's own "
                       "name differs, and it runs before any measurement", 1)
    loop = None
    for n in own_nodes(call.node):
        if isinstance(n, ast.For) and "definitions" in ast.unparse(n.iter):
            loop = n
    shapes.require(loop is not None, "C19.D3: loop over document definitions not found in __call__")
    # path form: for each (name configured?, operation named?, names equal?) enumerate the executions of the loop body for an
    # operation definition and see whether a measurement call is reached; predicates factored out into helper
    # methods/functions are evaluated under the same assignment.
    import re
    MEASURES = ("selected_fields", "max", "collect_fields_untyped")
    if not any(isinstance(x, ast.Call) and shapes.call_name(x) in MEASURES for st in loop.body for x in ast.walk(st)):
        raise AnalysisError("C19.D3: measurement statement not found")
    has_kw = "operation_name" in {a.arg for a in prog.get_func(MOD, "MaxDepthValidationRule.__init__").node.args.kwonlyargs}
    call_nodes = {}

    def role_decide(configured, named, equal, owner):
        def decide(t):
            if re.match(r"^isinstance\(\w+, [\w.]*OperationDefinition\)$", t):
                return True
            if re.match(r"^[\w.]+\.operation_name$", t):
                return configured
            if re.match(r"^[\w.]+\.operation_name is None$", t):
                return not configured
            if re.match(r"^\w+\.name$", t):
                return named
            if re.match(r"^\w+\.name is None$", t):
                return not named
            if re.match(r"^\w+\.name\.value == [\w.]+\.operation_name$", t) or re.match(r"^[\w.]+\.operation_name == \w+\.name\.value$", t):
                return equal
            # a predicate factored out into a helper
            for n in ast.walk(owner.node):
                if isinstance(n, ast.Call) and boolx.text(n) == t:
                    cal = prog.resolve_call(owner, n)
                    cal = [c for c in (cal or []) if hasattr(c, "node") and c.name != "__init__"]
                    if len(cal) == 1 and cal[0].module.name == MOD:
                        run.looked_at(cal[0])
                        ts = boolx.returned_truths(cal[0].node, role_decide(configured, named, equal, cal[0]))
                        if len(ts) == 1 and "raise" not in ts:
                            return ts.pop()
                        raise AnalysisError("C19.D3: helper %s is not decided by (configured, named, equal): %s" % (cal[0].qualname, sorted(map(str, ts))))
            return None
        return decide
    bad, n_rows = [], 0
    body_fn = boolx.body_function(loop.body)
    for configured in (False, True):
        for named in (False, True):
            for equal in (False, True):
                if equal and not named:
                    continue
                try:
                    _ev, bexits = boolx.walk_under(body_fn, role_decide(configured, named, equal, call))
                except ValueError as e:
                    raise AnalysisError("C19.D3: %s" % e)
                outcomes = set()
                for kind, st, env in bexits:
                    measured = any(shapes.call_name(c) in MEASURES for c in env.get(boolx.CALLS, ()))
                    outcomes.add("measured" if measured else "skipped")
                want = configured and not (named and equal)
                n_rows += 1
                r.instance("filter row configured=%s named=%s equal=%s -> %s" % (configured, named, equal, sorted(outcomes)))
                if outcomes != ({"skipped"} if want else {"measured"}):
                    bad.append({"configured": configured, "named": named, "equal": equal, "outcomes": sorted(outcomes), "expected": "skipped" if want else "measured"})
    if bad and has_kw:
        run.report(r, "%s:MaxDepthValidationRule.__call__:operation_name-filter" % MOD, call.where(loop),
                   "operation_name filter has the wrong truth table (an operation is measured iff no name is configured or its own "
                   "name equals the configured one): %s" % bad, {"rows": bad})

    # ---- D4: merged groups
    r = run.rule("D4", "when fields are grouped by response key, the sub-selections of every member of a group are "
                       "traversed: a call that descends into .selection_set inside a loop over groups receives the "
                       "loop variable of an iteration over the whole group (or the group itself)", 1)
    for f in fns:
        for n in own_nodes(f.node):
            if not (isinstance(n, ast.For) and isinstance(n.iter, ast.Call) and isinstance(n.iter.func, ast.Attribute)
                    and n.iter.func.attr in ("items", "values")):
                continue
            tgt = n.target
            grp = tgt.elts[-1].id if isinstance(tgt, ast.Tuple) and isinstance(tgt.elts[-1], ast.Name) else (
                tgt.id if isinstance(tgt, ast.Name) else None)
            if grp is None:
                continue
            members = set()   # loop variables ranging over the whole group
            for x in ast.walk(n):
                if isinstance(x, ast.For) and x is not n and isinstance(x.iter, ast.Name) and x.iter.id == grp and isinstance(x.target, ast.Name):
                    members.add(x.target.id)
                if isinstance(x, ast.comprehension) and isinstance(x.iter, ast.Name) and x.iter.id == grp and isinstance(x.target, ast.Name):
                    members.add(x.target.id)
            for x in ast.walk(n):
                if not isinstance(x, ast.Call):
                    continue
                bound = [(i, None, a) for i, a in enumerate(x.args)] + [(None, k.arg, k.value) for k in x.keywords]
                for i, kw, a in bound:
                    if not isinstance(a, (ast.Name, ast.Subscript)):
                        continue
                    for callee in prog.resolve_call(f, x):
                        ps = callee.params
                        off = 1 if (callee.cls is not None and ps and ps[0] in ("self", "cls")) else 0
                        pname = kw if kw else (ps[i + off] if i is not None and i + off < len(ps) else None)
                        if not pname or "selection_set" not in shapes.attr_reads(prog, callee, pname):
                            continue
                        r.instance("%s: %s descends into .selection_set of `%s`" % (f.qualname, callee.qualname, ast.unparse(a)))
                        ok = isinstance(a, ast.Name) and (a.id in members or a.id == grp)
                        if not ok:
                            run.report(r, "%s:%s:descends-into-part-of-group(%s)" % (f.module.name, f.qualname, grp), f.where(x),
                                       "inside the loop over response-key groups, %s() descends into `%s`, which is not a member "
                                       "variable of an iteration over the whole group `%s`: nesting under the other fields "
                                       "sharing the response key is not measured" % (callee.qualname, ast.unparse(a), grp),
                                       {"call": norm_stmt(x)})

    from . import c04
    c04.check_seen_scope(prog, run, "D5")
    check_descent(prog, run, "D8")

    # ---- D9 the variable values reach every place that evaluates @skip / @include
    from .. import ctxparams, nomemo as _nm
    r9 = run.rule("D9", "in the call-graph closure of MaxDepthValidationRule.__call__, every call from a function holding `variables` "
                        "to a callee that takes `variables` hands the caller's value on (positionally or by keyword): a call that "
                        "leaves it to the callee's default evaluates `@skip(if: $v)` below that point against no variables at all - "
                        "the rule raises a coercion error or measures fields the request skips", 4)
    inst, probs = ctxparams.check_named(prog, _nm.closure(prog, [call]), "variables")
    for i in inst:
        r9.instance(i)
    for g, n, f, what in probs:
        run.report(r9, "%s:%s:variables-not-threaded(%s)" % (g.module.name, g.qualname, f.qualname), g.where(n),
                   "`%s` calls %s with `variables` %s" % (norm_stmt(n, 70), f.qualname, what))

    # ---- D6 nothing on the measuring path remembers an earlier answer
    from .. import nomemo
    nomemo.check(prog, run, "D6", [call], "MaxDepthValidationRule.__call__",
                 "a document edited in place (a fragment replaced or added) would be measured against the fragments it had when "
                 "first looked at, and a deep operation would pass", 5)

    # ---- D11 validating leaves the rule object as configured
    r11 = run.rule("D11", "no method of MaxDepthValidationRule other than __init__ writes to the rule object: no store to `self.<attr>`, to "
                          "`self.<attr>[...]`, and no mutating call (`append`, `add`, `update`, `setdefault`, `pop`, `clear`, `extend`, "
                          "`insert`, `remove`, `discard`, `popitem`) on `self.<attr>` - the rule is built once and called for every request, "
                          "so anything it remembers from one (document, variables) answers for the next: a depth measured under one "
                          "set of @skip/@include variables is not the depth under another", 1)
    cls19 = prog.get_class(MOD, "MaxDepthValidationRule")
    MUT = {"append", "add", "update", "setdefault", "pop", "clear", "extend", "insert", "remove", "discard", "popitem", "__setitem__"}
    for mname, m in sorted(cls19.methods.items()):
        if m.cls is not cls19 or mname == "__init__" or not m.params:
            continue
        run.looked_at(m)
        me = m.params[0]
        r11.instance("%s writes nothing to %s" % (m.qualname, me))
        def on_self(e):
            while isinstance(e, (ast.Subscript, ast.Attribute)):
                if isinstance(e, ast.Attribute) and isinstance(e.value, ast.Name) and e.value.id == me:
                    return True
                e = e.value
            return False
        for n in own_nodes(m.node):
            bad = None
            if isinstance(n, (ast.Attribute, ast.Subscript)) and isinstance(n.ctx, (ast.Store, ast.Del)) and on_self(n):
                bad = n
            elif isinstance(n, ast.Call) and isinstance(n.func, ast.Attribute) and n.func.attr in MUT and on_self(n.func.value):
                bad = n
            if bad is not None:
                run.report(r11, "%s:%s:writes-rule-object(%s)" % (MOD, m.qualname, ast.unparse(bad)[:60]), m.where(bad),
                           "%s executes `%s`: the rule object is changed by a validation, so the next validation with the same rule "
                           "object (another document, or the same document with other variables) can be answered from this one"
                           % (m.qualname, ast.unparse(bad)[:100]))

    # ---- D7 the depth walk is schema-blind
    r = run.rule("D7", "nothing reachable from MaxDepthValidationRule.__call__ filters selections by type: no call to the typed "
                       "collect_fields / _fragment_type_applies and no use of schema root types (query_type, mutation_type, ...) on the "
                       "measuring path — a fragment whose type condition `does not apply` to an assumed root type would be dropped and "
                       "its depth not measured (mutations, subscriptions, abstract positions)", 5)
    from .. import nomemo
    closure = nomemo.closure(prog, [call])
    for f in closure:
        r.instance(f.qualname, nontrivial=False)
        for n in own_nodes(f.node):
            if isinstance(n, ast.Call) and isinstance(n.func, ast.Name) and n.func.id in ("collect_fields", "_fragment_type_applies"):
                run.report(r, "%s:%s:typed-collection(%s)" % (f.module.name, f.qualname, n.func.id), f.where(n),
                           "%s calls %s, which drops fragments whose type condition does not apply to the type it is given: their "
                           "nesting is not measured" % (f.qualname, n.func.id))
            if isinstance(n, ast.Attribute) and n.attr in ("query_type", "mutation_type", "subscription_type") and f.module.name.endswith("max_depth"):
                run.report(r, "%s:%s:assumes-root(%s)" % (f.module.name, f.qualname, n.attr), f.where(n),
                           "the depth rule consults schema.%s: the measurement depends on an assumed root type" % n.attr)


def check_descent(prog, run, rule_id):
    """Every selected child is descended into."""
    from .. import boolx
    r = run.rule(rule_id, "selected_fields, per response key of the collected children: with no depth limit (`maxdepth` falsy) every "
                          "execution of the loop body reaches the recursive call for that key's fields — nothing that depends on "
                          "what has been listed already (a duplicate path, a pattern miss) may skip the descent, or the depth under "
                          "a second alias of a field is never measured", 1)
    sf = prog.get_func(CF, "selected_fields")
    run.looked_at(sf)
    loops = [n for n in sf.node.body if isinstance(n, ast.For)]
    if len(loops) != 1:
        raise AnalysisError("C19.%s: per-key loop of selected_fields not found" % rule_id)
    depth_param = next((a.arg for a in sf.node.args.args + sf.node.args.kwonlyargs if "depth" in a.arg), None)
    if depth_param is None:
        raise AnalysisError("C19.%s: depth parameter of selected_fields not found" % rule_id)

    def decide(t):
        if t == depth_param:
            return False          # no limit
        return None
    def at_least_once(stmts):
        """inner `for` loops read as one iteration (groups of fields are never empty): header expression, then the body"""
        out = []
        for st in stmts:
            if isinstance(st, (ast.For, ast.AsyncFor)):
                out.append(ast.copy_location(ast.Expr(value=st.iter), st))
                out.extend(at_least_once(st.body))
            elif isinstance(st, ast.If):
                out.append(ast.copy_location(ast.If(test=st.test, body=at_least_once(st.body) or [ast.Pass()], orelse=at_least_once(st.orelse)), st))
            else:
                out.append(st)
        return out
    body = boolx.body_function(at_least_once(loops[0].body))
    ast.fix_missing_locations(body)
    try:
        _ev, exits = boolx.walk_under(body, decide)
    except ValueError as e:
        raise AnalysisError("C19.%s: %s" % (rule_id, e))
    n_ok = 0
    for kind, st, env in exits:
        if kind == "raise":
            continue
        rec = [c for c in env.get(boolx.CALLS, ()) if isinstance(c.func, ast.Name) and c.func.id == sf.name]
        if rec:
            n_ok += 1
            continue
        cond = ", ".join("%s=%s" % kv for kv in sorted(env.items()) if kv[0] not in boolx.META)
        run.report(r, "%s:selected_fields:descent-skipped" % CF, sf.where(st) if st is not None else sf.where(loops[0]),
                   "an execution of the per-key loop body of selected_fields ends (%s) without the recursive call although no depth "
                   "limit applies (when %s): the sub-selection of that field is not measured" % (kind, cond or "always"))
        break
    r.instance("per-key loop body: %d executions reach the recursive call" % n_ok)
    if not n_ok:
        raise AnalysisError("C19.%s: no execution of the loop body reaches the recursive call" % rule_id)
