"""C20 — schema diffing: polarity of the compatibility predicates, coverage of
change classes and differs, severity table, order independence."""
import ast

from .. import boolx, shapes
from ..model import AnalysisError, own_nodes, norm_stmt

D = "py_gql.schema.differ"
CH = "py_gql.schema.differ.changes"


def reach(prog, start):
    seen, stack = {}, [start]
    while stack:
        f = stack.pop()
        if f.key in seen:
            continue
        seen[f.key] = f
        for n in own_nodes(f.node):
            if isinstance(n, ast.Call):
                for c in prog.resolve_call(f, n):
                    if c.module.name == D:
                        stack.append(c)
    return seen


def check(prog, run):
    check_named_type_identity(prog, run, "P10")
    check_deprecation_table(prog, run, "P11")
    m = prog.module(D)
    cm = prog.module(CH)

    # ---- P1 polarity
    r = run.rule("P1", "the input and output compatibility predicates never call each other; each handles NamedType, ListType and "
                       "NonNullType and ends in False; an input position may only become more permissive (NonNull -> nullable), an "
                       "output position only stricter (nullable -> NonNull)", 8)
    pin = prog.get_func(D, "_is_safe_input_type_change")
    pout = prog.get_func(D, "_is_safe_output_type_change")
    for f, other in ((pin, pout), (pout, pin)):
        run.looked_at(f)
        for n in own_nodes(f.node):
            if isinstance(n, ast.Call) and isinstance(n.func, ast.Name) and n.func.id == other.name:
                # which case?  the kinds of old type for which this call is evaluated (path enumeration)
                from .. import dispatch
                hier = dispatch.Hierarchy(prog)
                reached = [k for k in ("NamedType", "ListType", "NonNullType")
                           if any(c is n for _k, _st, env in dispatch.executions(hier, f, f.params[0], k) for c in env.get(boolx.CALLS, ()))]
                case = reached[0] if len(reached) == 1 else ("|".join(reached) or None)
                run.report(r, "%s:%s:crosses-polarity(%s)" % (D, f.name, case), f.where(n),
                           "%s calls %s in its %s case: the element types of an %s list are compared with the %s rule, so e.g. "
                           "`[Int!]` -> `[Int]` on a field is reported as safe although clients may now receive null items"
                           % (f.name, other.name, case, "output" if f is pout else "input", "input" if f is pout else "output"))
        cases = [nm for n in own_nodes(f.node) if isinstance(n, ast.If) for names, _ in shapes.class_tests(n.test, f.params[0]) for nm in names]
        for k in ("NamedType", "ListType", "NonNullType"):
            r.instance("%s handles old %s: %s" % (f.name, k, k in cases))
            if k not in cases:
                run.report(r, "%s:%s:unhandled(%s)" % (D, f.name, k), f.where(), "%s has no case for an old %s" % (f.name, k))
        last = f.node.body[-1]
        if not (isinstance(last, ast.Return) and isinstance(last.value, ast.Constant) and last.value.value is False):
            run.report(r, "%s:%s:default" % (D, f.name), f.where(last), "%s does not end in `return False`" % f.name)
    # relaxations: input predicate must accept NonNull -> nullable and reject nullable -> NonNull; output the reverse
    def relax_calls(f, case):
        """recursive calls (callee args) made in the case for old `case` under `not isinstance(new, NonNullType)` / isinstance(new, NonNullType)"""
        out = []
        for n in own_nodes(f.node):
            if isinstance(n, ast.If) and any(case in names for names, _ in shapes.class_tests(n.test, f.params[0])):
                for c in ast.walk(n):
                    if isinstance(c, ast.Call) and isinstance(c.func, ast.Name) and c.func.id in (pin.name, pout.name):
                        out.append(tuple(ast.unparse(a) for a in c.args))
                break
        return out
    o, nw = pin.params
    r.instance("input NonNull case recursive calls %s" % relax_calls(pin, "NonNullType"))
    if ("%s.type" % o, nw) not in relax_calls(pin, "NonNullType"):
        run.report(r, "%s:_is_safe_input_type_change:no-relaxation" % D, pin.where(), "an input position cannot become nullable (NonNull -> nullable should be safe)")
    if any(a == (o, "%s.type" % nw) for a in relax_calls(pin, "NamedType") + relax_calls(pin, "ListType")):
        run.report(r, "%s:_is_safe_input_type_change:tightening-accepted" % D, pin.where(), "an input position becoming NonNull is accepted as safe")
    o, nw = pout.params
    r.instance("output Named/List case recursive calls %s" % (relax_calls(pout, "NamedType") + relax_calls(pout, "ListType")))
    for case in ("NamedType", "ListType"):
        if not any(a[1] == "%s.type" % nw and a[0] == o for a in relax_calls(pout, case)):
            run.report(r, "%s:_is_safe_output_type_change:no-tightening(%s)" % (D, case), pout.where(), "an output %s cannot become NonNull (nullable -> NonNull should be safe)" % case)
    if any(a == ("%s.type" % o, nw) for a in relax_calls(pout, "NonNullType")):
        run.report(r, "%s:_is_safe_output_type_change:relaxation-accepted" % D, pout.where(), "an output position becoming nullable is accepted as safe")
    # each predicate is used at the right sites
    for f in [x for x in prog.all_funcs() if x.module is m and x.name.startswith("_diff")]:
        for n in own_nodes(f.node):
            if isinstance(n, ast.Call) and isinstance(n.func, ast.Name) and n.func.id in (pin.name, pout.name):
                args = " ".join(ast.unparse(a) for a in n.args)
                is_field = f.name == "_diff_field"
                r.instance("%s uses %s(%s)" % (f.name, n.func.id, args))
                if is_field != (n.func.id == pout.name):
                    run.report(r, "%s:%s:wrong-predicate" % (D, f.name), f.where(n), "%s compares types with %s" % (f.name, n.func.id))

    # ---- P2 coverage
    r = run.rule("P2", "every SchemaChange subclass is instantiated by some differ; every module-level _diff_*/_find_* generator "
                       "taking (old, new) schemas is listed in diff_schema; every type kind with members has a differ", 40)
    base = cm.classes.get("SchemaChange")
    shapes.require(base is not None, "C20.P2: SchemaChange not found")
    classes = [c for c in cm.classes.values() if c.is_subclass_of(base) and c is not base]
    made = set()
    for f in [x for x in prog.all_funcs() if x.module is m]:
        for n in own_nodes(f.node):
            if isinstance(n, ast.Call) and isinstance(n.func, ast.Name):
                made.add(n.func.id)
    for c in classes:
        r.instance("change class %s produced: %s" % (c.name, c.name in made))
        if c.name not in made:
            run.report(r, "%s:unproduced(%s)" % (D, c.name), "src/py_gql/schema/differ/__init__.py", "no differ ever yields %s: that kind of edit is never reported" % c.name)
    ds = prog.get_func(D, "diff_schema")
    run.looked_at(ds)
    # flow form: the calls whose results reach what diff_schema yields (through locals, list building and module helpers that
    # are not differs themselves), not merely the calls that appear in its body
    def _is_differ_name(nm):
        return nm.startswith("_diff_") or nm.startswith("_find_")

    def produced_by(f, depth=0):
        """roots of the values a generator / iterator-returning function hands out"""
        roots = []
        for n in own_nodes(f.node):
            if isinstance(n, ast.Return) and n.value is not None:
                roots.append(n.value)
            elif isinstance(n, ast.YieldFrom):
                roots.append(n.value)
            elif isinstance(n, (ast.For, ast.AsyncFor)) and any(isinstance(x, (ast.Yield, ast.YieldFrom)) for st in n.body for x in ast.walk(st)):
                roots.append(n.iter)
            elif isinstance(n, ast.Yield) and n.value is not None and not isinstance(n.value, ast.Name):
                roots.append(n.value)
        out = set()
        seen = set()

        def flow(e):
            for x in ast.walk(e):
                if isinstance(x, ast.Call) and isinstance(x.func, ast.Name):
                    out.add(x.func.id)
                    h = m.functions.get(x.func.id)
                    if h is not None and not _is_differ_name(x.func.id) and depth < 3 and h is not f:
                        out.update(produced_by(h, depth + 1))
                elif isinstance(x, ast.Name) and isinstance(x.ctx, ast.Load) and x.id not in seen:
                    seen.add(x.id)
                    for a in own_nodes(f.node):
                        if isinstance(a, ast.Assign) and any(isinstance(t, ast.Name) and t.id == x.id for t in a.targets):
                            flow(a.value)
                        elif isinstance(a, ast.AnnAssign) and isinstance(a.target, ast.Name) and a.target.id == x.id and a.value is not None:
                            flow(a.value)
                        elif isinstance(a, ast.AugAssign) and isinstance(a.target, ast.Name) and a.target.id == x.id:
                            flow(a.value)
                        elif isinstance(a, ast.Call) and isinstance(a.func, ast.Attribute) and a.func.attr in ("append", "extend", "insert") \
                                and isinstance(a.func.value, ast.Name) and a.func.value.id == x.id:
                            for arg in a.args:
                                flow(arg)
        for e in roots:
            flow(e)
        return out
    listed = produced_by(ds)
    for name, f in m.functions.items():
        if (name.startswith("_diff_") or name.startswith("_find_")) and len(f.params) == 2 and f.params[0] in ("old", "old_schema"):
            r.instance("differ %s registered: %s" % (name, name in listed))
            if name not in listed:
                run.report(r, "%s:diff_schema:unregistered(%s)" % (D, name), ds.where(), "%s is defined but not part of diff_schema" % name)
    for kind, fn in (("UnionType", "_diff_union_types"), ("EnumType", "_diff_enum_types"), ("ObjectType", "_diff_object_types"),
                     ("InterfaceType", "_diff_interface_types"), ("InputObjectType", "_diff_input_types")):
        ok = fn in m.functions and fn in listed and kind in ast.unparse(m.functions[fn].node)
        r.instance("%s members diffed by %s: %s" % (kind, fn, ok))
        if not ok:
            run.report(r, "%s:diff_schema:no-differ(%s)" % (D, kind), ds.where(), "members of %s are not compared" % kind)

    # ---- P3 severity table
    r = run.rule("P3", "removals, kind changes and type changes are BREAKING; additions of required arguments / input fields are "
                       "BREAKING (dynamic severity keyed on .required); additions to unions/interfaces/enums are DANGEROUS", 30)
    def severity(c):
        v = c.attrs.get("severity")
        static = v.attr if isinstance(v, ast.Attribute) else None
        dyn = None
        init = c.methods.get("__init__")
        if init is not None and any(isinstance(n, ast.Assign) and ast.unparse(n.targets[0]) == "self.severity" for n in own_nodes(init.node)):
            # path form: the severity stored when the added member is required / optional (whatever the statement shape)
            from .. import boolx
            vals, tests = {}, set()
            for req in (True, False):
                def decide(t, req=req):
                    if t.endswith(".required"):
                        tests.add(t)
                        return req
                    return None
                try:
                    _ev, exits = boolx.walk_under(init.node, decide)
                except ValueError as e:
                    raise AnalysisError("C20.P3: %s.__init__: %s" % (c.name, e))
                got = set()
                for kind, st, env in exits:
                    atoms = {a: b for a, b in env.items() if a not in boolx.META}
                    last = None
                    for x in env.get(boolx.STMTS, ()):
                        if isinstance(x, ast.Assign) and ast.unparse(x.targets[0]) == "self.severity":
                            last = boolx.path_value(env.get(boolx.STMTS, ()), x, x.value, atoms)
                    got.add(last.attr if isinstance(last, ast.Attribute) else ("<%s>" % (ast.unparse(last) if last is not None else kind)))
                vals[req] = got
            if len(vals[True]) == 1 and len(vals[False]) == 1:
                a, b = next(iter(vals[True])), next(iter(vals[False]))
                if a == b and not tests:
                    static = a
                else:
                    dyn = (sorted(tests)[0] if tests else "?", a, b)
            else:
                dyn = ("?", "|".join(sorted(vals[True])), "|".join(sorted(vals[False])))
        return static, dyn
    for c in classes:
        static, dyn = severity(c)
        r.instance("%s severity %s %s" % (c.name, static, dyn or ""))
        name = c.name
        want = None
        if name.endswith("Removed") and "Deprecation" not in name or name.endswith("ChangedType") or name.endswith("ChangedKind") \
                or name.startswith("TypeRemovedFrom"):
            want = "BREAKING"
        elif name in ("TypeAddedToUnion", "TypeAddedToInterface", "EnumValueAdded") or name.endswith("DefaultValueChange"):
            want = "DANGEROUS"
        if name in ("DirectiveArgumentAdded", "FieldArgumentAdded", "InputFieldAdded"):
            ok = dyn is not None and dyn[0].endswith(".required") and dyn[1] == "BREAKING" and dyn[2] in ("COMPATIBLE", "DANGEROUS")
            if not ok:
                run.report(r, "%s:%s:severity" % (CH, name), "src/py_gql/schema/differ/changes.py", "%s is not BREAKING exactly when the added member is required (%s)" % (name, dyn))
        elif want is not None and (static != want or dyn is not None):
            run.report(r, "%s:%s:severity" % (CH, name), "src/py_gql/schema/differ/changes.py", "%s has severity %s, expected %s" % (name, dyn or static, want))
        elif static is None and dyn is None:
            run.report(r, "%s:%s:no-severity" % (CH, name), "src/py_gql/schema/differ/changes.py", "%s defines no severity" % name)
    sev = cm.classes.get("SchemaChangeSeverity")
    order = [n.targets[0].id for n in sev.node.body if isinstance(n, ast.Assign)]
    vals = {n.targets[0].id: n.value.value for n in sev.node.body if isinstance(n, ast.Assign) and isinstance(n.value, ast.Constant)}
    r.instance("severity order %s" % vals)
    if not (vals.get("COMPATIBLE", 0) < vals.get("DANGEROUS", 0) < vals.get("BREAKING", 0)):
        run.report(r, "%s:SchemaChangeSeverity:order" % CH, "src/py_gql/schema/differ/changes.py", "severities are not ordered COMPATIBLE < DANGEROUS < BREAKING: min_severity filtering is wrong")
    flt = [n for n in own_nodes(ds.node) if isinstance(n, ast.Compare) and ".severity" in ast.unparse(n.left)]
    r.instance("min_severity filter `%s`" % (ast.unparse(flt[0]) if flt else None))
    if not flt or not isinstance(flt[0].ops[0], ast.GtE):
        run.report(r, "%s:diff_schema:min-severity" % D, ds.where(), "min_severity does not keep changes with severity >= the threshold")

    # ---- P4 hash-order independence
    r = run.rule("P4", "no differ yields from a loop over a set expression (set difference, set(...)): the order of reported "
                       "changes would depend on string hashing", 9)
    for f in [x for x in prog.all_funcs() if x.module is m]:
        set_vars = {n.targets[0].id for n in own_nodes(f.node) if isinstance(n, ast.Assign) and isinstance(n.targets[0], ast.Name)
                    and (isinstance(n.value, (ast.Set, ast.SetComp)) or (isinstance(n.value, ast.Call) and isinstance(n.value.func, ast.Name) and n.value.func.id in ("set", "frozenset")))}
        r.instance(f.qualname)
        for n in own_nodes(f.node):
            if isinstance(n, ast.For) and any(isinstance(x, (ast.Yield, ast.YieldFrom)) for x in ast.walk(n)):
                it = n.iter
                is_set = isinstance(it, (ast.Set, ast.SetComp)) or (isinstance(it, ast.Call) and isinstance(it.func, ast.Name) and it.func.id in ("set", "frozenset")) \
                    or (isinstance(it, ast.BinOp) and isinstance(it.op, (ast.Sub, ast.BitAnd, ast.BitOr, ast.BitXor)) and
                        any(isinstance(x, ast.Name) and x.id in set_vars for x in ast.walk(it))) \
                    or (isinstance(it, ast.Name) and it.id in set_vars)
                if is_set:
                    run.report(r, "%s:%s:set-iteration(%s)" % (D, f.qualname, ast.unparse(it)), f.where(n),
                               "changes are yielded while iterating the set `%s`: their order varies with PYTHONHASHSEED" % ast.unparse(it))

    # ---- W1 safe-change predicates descend wrappers level by level
    from .. import pairwrap
    pairwrap.check(prog, run, "W1", ["py_gql.schema.differ"], 2)

    # ---- P6 old and new members are paired by their GraphQL name
    r6 = run.rule("P6", "wherever the differ pairs an old member with a new one (dictionary keys, subscripts and membership tests whose "
                        "key is an attribute of a member variable) the key is the member's GraphQL `name`: pairing by any other "
                        "attribute (an enum value's internal Python `value`, a python_name) misses renames and reports changes for "
                        "structurally equal schemas built in Python", 5)
    dmod = prog.module(D)
    for f in [x for x in prog.all_funcs() if x.module is dmod]:
        keys = []
        for n in own_nodes(f.node):
            if isinstance(n, ast.DictComp):
                keys.append(n.key)
            elif isinstance(n, ast.Subscript):        # a lookup or the item store of an index built by a loop
                keys.append(n.slice)
            elif isinstance(n, ast.Compare) and len(n.ops) == 1 and isinstance(n.ops[0], (ast.In, ast.NotIn)):
                keys.append(n.left)
        for k in keys:
            if isinstance(k, ast.Attribute) and isinstance(k.value, ast.Name):
                r6.instance("%s: key `%s`" % (f.qualname, ast.unparse(k)))
                if k.attr != "name":
                    run.report(r6, "%s:%s:paired-by(%s)" % (D, f.qualname, ast.unparse(k)), f.where(k),
                               "old and new members are paired by `%s` instead of their name: a renamed member with the same %s is "
                               "reported as unchanged, and equal names with different %s as removed and added" % (ast.unparse(k), k.attr, k.attr))

    # ---- P7 independent aspects are diffed independently
    r7 = run.rule("P7", "a call to a sub-differ (`_diff_*`) is never placed under an if/else that compares another aspect of the old and "
                        "new element (`old_x != new_x`): each aspect (locations, arguments, fields, ...) is diffed whether or not "
                        "another aspect changed, otherwise combined edits lose all but one of their reports", 5)
    dmod2 = prog.module(D)
    for f in [x for x in prog.all_funcs() if x.module is dmod2]:
        for n in own_nodes(f.node):
            if isinstance(n, ast.Call) and isinstance(n.func, ast.Name) and n.func.id.startswith("_diff_"):
                r7.instance("%s calls %s" % (f.qualname, n.func.id))
                cur = n
                while getattr(cur, "_parent", None) is not None and cur is not f.node:
                    par = cur._parent
                    if isinstance(par, ast.If) and cur is not par.test:
                        for c in ast.walk(par.test):
                            if isinstance(c, ast.Compare) and len(c.ops) == 1 and isinstance(c.ops[0], (ast.Eq, ast.NotEq)):
                                sides = ast.unparse(c.left) + " " + ast.unparse(c.comparators[0])
                                if "old" in sides and "new" in sides:
                                    run.report(r7, "%s:%s:conditional-subdiff(%s)" % (D, f.qualname, n.func.id), f.where(n),
                                               "%s is called only when `%s` %s: an edit of that aspect made together with an edit of the "
                                               "compared one is not reported" % (n.func.id, " ".join(ast.unparse(par.test).split()),
                                                                               "holds" if any(cur is b for b in par.body) else "does not hold"))
                    cur = par

    # ---- P8 a comparison is skipped only when BOTH sides have nothing to compare
    r8 = run.rule("P8", "an early `continue` / `return` in a differ function whose condition is built from the truthiness of an old_* and "
                        "a new_* collection fires only when both are empty (truth table of the condition over the two emptiness atoms): "
                        "with `not (old and new)` a member list going from empty to non-empty, or back, is never compared", 0)
    for f in [x for x in prog.all_funcs() if x.module is dmod2]:
        for n in own_nodes(f.node):
            if not (isinstance(n, ast.If) and len(n.body) == 1 and isinstance(n.body[0], (ast.Continue, ast.Return)) and not n.orelse):
                continue
            names = boolx.atoms(n.test)
            olds = [a for a in names if a.isidentifier() and a.startswith("old")]
            news = [a for a in names if a.isidentifier() and a.startswith("new")]
            if len(names) != 2 or len(olds) != 1 or len(news) != 1:
                continue
            r8.instance("%s: `%s`" % (f.qualname, boolx.text(n.test)))
            for o, w in ((True, False), (False, True), (True, True)):
                if boolx.evaluate(n.test, {olds[0]: o, news[0]: w}):
                    run.report(r8, "%s:%s:skips-nonempty(%s)" % (D, f.qualname, boolx.text(n.test)), f.where(n),
                               "`%s` skips the comparison when %s is %s and %s is %s: members added to / removed from an empty list are "
                               "not reported" % (boolx.text(n.test), olds[0], "non-empty" if o else "empty", news[0], "non-empty" if w else "empty"))
                    break

    # ---- P5 sibling default comparison
    r = run.rule("P5", "the three argument / input-field differs compare defaults with the same condition (presence changed, or "
                       "both present and values differ)", 3)
    # path form: for every (old has default, new has default, values equal) the executions of each differ that consult the
    # defaults (type unchanged / safely changed) construct a *DefaultValueChange iff presence changed or both present and
    # different; a condition factored out into a helper is evaluated under the same assumption.
    import re
    from .. import predcall
    for fname in ("_diff_directive_arguments", "_diff_field_arguments", "_diff_input_types"):
        f = m.functions.get(fname)
        shapes.require(f is not None, "C20.P5: %s not found" % fname)
        run.looked_at(f)
        bad, consulted = [], 0
        for o_ in (False, True):
            for n_ in (False, True):
                for eq in (False, True):
                    def base(t, o_=o_, n_=n_, eq=eq):
                        mm = re.match(r"^(\w+)\.has_default_value$", t)
                        if mm:
                            return o_ if mm.group(1).startswith("old") else (n_ if mm.group(1).startswith("new") else None)
                        if re.match(r"^\w+\.default_value == \w+\.default_value$", t):
                            return eq
                        if re.match(r"^\w+\.default_value != \w+\.default_value$", t):
                            return not eq
                        if t.startswith("_is_safe_input_type_change(") or t.startswith("_is_safe_output_type_change("):
                            return True
                        return None
                    decide = predcall.decide_with_helpers(prog, f, base, run.looked_at)
                    try:
                        _ev, exits = boolx.walk_under(f.node, decide)
                    except ValueError as e:
                        raise AnalysisError("C20.P5: %s: %s" % (fname, e))
                    want = (o_ != n_) or (o_ and n_ and not eq)
                    for kind, st, env in exits:
                        tests = [a for a, _v in env.get(boolx.TESTS, ())]
                        if not any("default_value" in a for a in tests):
                            continue
                        consulted += 1
                        got = any(isinstance(c.func, ast.Name) and c.func.id.endswith("DefaultValueChange") for c in env.get(boolx.CALLS, ()))
                        if got != want:
                            bad.append((o_, n_, eq, got))
        r.instance("%s: %d executions consult the defaults, %d wrong" % (fname, consulted, len(set(bad))))
        if not consulted:
            raise AnalysisError("C20.P5: %s never consults the defaults" % fname)
        if bad:
            run.report(r, "%s:%s:default-comparison" % (D, fname), f.where(),
                       "default change condition is wrong on rows (old has, new has, equal, reported): %s" % sorted(set(bad)))

    check_pairing_skips(prog, run, "P9")


def check_pairing_skips(prog, run, rule_id):
    """Only introspection types are left out of the pairwise comparison."""
    r = run.rule(rule_id, "_iterate_matching_pairs: a user type present in both schemas is always paired — the loop body is executed "
                          "for the sample names `Foo`, `_Entity`, `X__y` with every test on the name alone folded and "
                          "is_introspection_type(...) false, and must reach the `yield` of the pair: a skip keyed on the spelling of "
                          "the name (a leading underscore) hides every edit inside such a type from the diff", 3)
    f = prog.get_func(D, "_iterate_matching_pairs")
    run.looked_at(f)
    loops = [n for n in own_nodes(f.node) if isinstance(n, ast.For) and any(isinstance(x, (ast.Yield, ast.YieldFrom)) for x in ast.walk(n))]
    if len(loops) != 1:
        raise AnalysisError("C20.%s: pairing loop of _iterate_matching_pairs not found" % rule_id)
    lp = loops[0]
    names = [x.id for x in ast.walk(lp.target) if isinstance(x, ast.Name)]
    for sample in ("Foo", "_Entity", "X__y"):
        def decide(t, sample=sample):
            if "is_introspection_type(" in t:
                return False
            try:
                e = ast.parse(t, mode="eval")
            except SyntaxError:
                return None
            used = {x.id for x in ast.walk(e) if isinstance(x, ast.Name)}
            cand = [n for n in names if used == {n}]
            if len(cand) == 1 and not any(isinstance(x, ast.Call) and not (isinstance(x.func, ast.Attribute) and isinstance(x.func.value, ast.Name)
                                                                        and x.func.value.id == cand[0]) for x in ast.walk(e)):
                try:
                    return bool(eval(compile(e, "<test>", "eval"), {"__builtins__": {}}, {cand[0]: sample}))    # a str predicate on a constant
                except Exception:
                    return None
            return None
        body = boolx.body_function(lp.body)
        ast.fix_missing_locations(body)
        try:
            _ev, exits = boolx.walk_under(body, decide)
        except ValueError as e:
            raise AnalysisError("C20.%s: %s" % (rule_id, e))
        paired = any(any(isinstance(x, (ast.Yield, ast.YieldFrom)) for s_ in env.get(boolx.STMTS, ()) for x in ast.walk(s_)) for _k, _st, env in exits)
        r.instance("type named %r: paired on some execution: %s" % (sample, paired))
        if not paired:
            run.report(r, "%s:_iterate_matching_pairs:user-type-skipped(%s)" % (D, sample), f.where(lp),
                       "a user type named %r that exists in both schemas is never handed to the pairwise comparison: no change "
                       "inside it (removed field, removed member, retyped argument) is reported" % sample)


def check_named_type_identity(prog, run, rule_id):
    """A retyped position is compatible only if the named type at the bottom is the same type."""
    from .. import dispatch
    import re as _re
    D_ = "py_gql.schema.differ"
    r = run.rule(rule_id, "_is_safe_input_type_change / _is_safe_output_type_change decided for an old and a new *named* type of every kind "
                          "(scalar, enum, input object; object, interface, union on the output side): with equal names every execution "
                          "answers safe, with different names every execution answers unsafe, whatever the names are - an input retyped "
                          "Int -> Float or String -> ID breaks every operation that feeds it from a variable of the old type, an output "
                          "retyped to another scalar changes what clients receive", 24)
    hier = dispatch.Hierarchy(prog)
    for fname, kinds in (("_is_safe_input_type_change", ("ScalarType", "EnumType", "InputObjectType")),
                         ("_is_safe_output_type_change", ("ScalarType", "EnumType", "ObjectType", "InterfaceType", "UnionType"))):
        f = prog.get_func(D_, fname)
        run.looked_at(f)
        o, nw = f.params[:2]
        eq_pat = _re.compile(r"^(?:%s\.name == %s\.name|%s\.name == %s\.name|%s == %s|%s == %s|%s is %s|%s is %s)$" % (o, nw, nw, o, o, nw, nw, o, o, nw, nw, o))
        ne_pat = _re.compile(r"^(?:%s\.name != %s\.name|%s\.name != %s\.name|%s != %s|%s != %s|%s is not %s|%s is not %s)$" % (o, nw, nw, o, o, nw, nw, o, o, nw, nw, o))
        for k1 in kinds:
            for k2 in kinds:
                for same in ((True, False) if k1 == k2 else (False,)):
                    def extra(t, same=same):
                        if eq_pat.match(t):
                            return same
                        if ne_pat.match(t):
                            return not same
                        return None
                    d = dispatch.decide_for(hier, o, k1, dispatch.decide_for(hier, nw, k2, extra))
                    try:
                        got = boolx.returned_truths(f.node, d)
                    except ValueError as e:
                        raise AnalysisError("C20.%s: %s" % (rule_id, e))
                    r.instance("%s(%s, %s) names %s -> %s" % (fname, k1, k2, "equal" if same else "different", sorted(map(str, got))))
                    if got != {same}:
                        run.report(r, "%s:%s:named-type-identity(%s)" % (D_, fname, "equal" if same else "different"), f.where(),
                                   "%s answers %s for an old %s and a new %s whose names are %s (expected %s on every execution): a "
                                   "position retyped to a different named type is reported as a compatible change"
                                   % (fname, sorted(map(str, got)), k1, k2, "equal" if same else "different", same))
                        break


def check_deprecation_table(prog, run, rule_id):
    """Deprecation changes of fields and enum values, decided per (old deprecated, new deprecated, reasons differ)."""
    D_ = "py_gql.schema.differ"
    r = run.rule(rule_id, "wherever a differ instantiates the three deprecation changes of one member kind (X-Deprecated, X-DeprecationRemoved, "
                          "X-DeprecationReasonChanged), the statements doing so are decided for every consistent combination of (old member "
                          "deprecated, new member deprecated, the two reasons differ) with every other test left open: deprecated on both sides "
                          "with different reasons instantiates exactly ReasonChanged on every execution, deprecated only before exactly "
                          "DeprecationRemoved, only after exactly Deprecated, and otherwise none of the three - whatever the reasons' "
                          "truthiness (an empty reason is a reason)", 10)
    found = 0
    for f in [x for x in prog.all_funcs() if x.module.name == D_]:
        calls = [n for n in own_nodes(f.node) if isinstance(n, ast.Call) and isinstance(n.func, ast.Name)
                 and n.func.id.endswith(("Deprecated", "DeprecationRemoved", "DeprecationReasonChanged"))]
        if not calls:
            continue
        run.looked_at(f)
        kinds = {}
        for c in calls:
            for suf in ("DeprecationReasonChanged", "DeprecationRemoved", "Deprecated"):
                if c.func.id.endswith(suf):
                    kinds.setdefault(c.func.id[:-len(suf)], {}).setdefault(suf, []).append(c)
                    break
        for member, by in sorted(kinds.items()):
            if set(by) != {"DeprecationReasonChanged", "DeprecationRemoved", "Deprecated"}:
                raise AnalysisError("C20.%s: %s instantiates only %s of the %s deprecation changes" % (rule_id, f.qualname, sorted(by), member))
            mine = [c for cs in by.values() for c in cs]
            ref = by["DeprecationReasonChanged"][0]
            if len(ref.args) < 2:
                raise AnalysisError("C20.%s: %s: cannot read the old/new members from %s" % (rule_id, f.qualname, ast.unparse(ref)))
            o, nw = ast.unparse(ref.args[-2]), ast.unparse(ref.args[-1])
            # innermost statement list holding all of them
            best = None
            for node in [f.node] + list(own_nodes(f.node)):
                for field in ("body", "orelse", "finalbody"):
                    lst = getattr(node, field, None)
                    if isinstance(lst, list) and lst and isinstance(lst[0], ast.stmt):
                        inside = {id(x) for st in lst for x in ast.walk(st)}
                        if all(id(c) in inside for c in mine) and (best is None or len(inside) < best[0]):
                            best = (len(inside), lst)
            if best is None:
                raise AnalysisError("C20.%s: %s: no statement list holds the %s deprecation changes" % (rule_id, f.qualname, member))
            stmts = list(best[1])
            # statements before the first one that reads a deprecation attribute pair the members up (or give up on the pair): not part of the table
            while stmts and "deprecat" not in ast.unparse(stmts[0]).lower():
                stmts.pop(0)
            body = boolx.body_function(stmts)
            found += 1
            for od, nd, differ, want in ((True, True, True, "DeprecationReasonChanged"), (True, True, False, None),
                                         (True, False, True, "DeprecationRemoved"), (False, True, True, "Deprecated"),
                                         (False, False, False, None)):
                def decide(t, od=od, nd=nd, differ=differ):
                    t = t.strip()
                    if t.startswith("(") and t.endswith(")") and t.count("(") == 1:
                        t = t[1:-1]
                    if t == o + ".deprecated":
                        return od
                    if t == nw + ".deprecated":
                        return nd
                    a, b = o + ".deprecation_reason", nw + ".deprecation_reason"
                    if t in (a + " == " + b, b + " == " + a):
                        return not differ
                    if t in (a + " != " + b, b + " != " + a):
                        return differ
                    for side, dep in ((a, od), (b, nd)):
                        if t == side + " is None":
                            return not dep
                        if t == side + " is not None":
                            return dep
                        if t == side and not dep:
                            return False
                    return None
                try:
                    _ev, exits = boolx.walk_under(body, decide)
                except ValueError as e:
                    raise AnalysisError("C20.%s: %s" % (rule_id, e))
                r.instance("%s %s (old deprecated %s, new deprecated %s, reasons differ %s) -> %s" % (f.qualname, member, od, nd, differ, want))
                ids = {id(c): c for c in mine}
                for kind, st, env in exits:
                    if kind == "raise":
                        continue
                    made = sorted({ids[id(c)].func.id[len(member):] for c in env.get(boolx.CALLS, ()) if id(c) in ids})
                    if made != ([want] if want else []):
                        run.report(r, "%s:%s:deprecation(%s,%s,%s)" % (D_, f.qualname, od, nd, "differ" if differ else "same"), f.where(),
                                   "with the old %s %sdeprecated, the new one %sdeprecated and %s reasons an execution of %s reports %s "
                                   "(expected %s): a deprecation change of a member is lost or misreported"
                                   % (member.lower() or "member", "" if od else "not ", "" if nd else "not ",
                                      "different" if differ else "equal", f.qualname, made or "nothing", want or "nothing"))
                        break
    if found < 2:
        raise AnalysisError("C20.%s: only %d deprecation tables found (expected fields and enum values)" % (rule_id, found))
