"""Shared rule: a module-level compiled regular expression accepts exactly a reference language."""
import ast

from . import rx, sre2rx
from .model import AnalysisError


def check(prog, run, r, modname, const, ref, what, consequence):
    m = prog.module(modname)
    vals = m.assigns.get(const)
    if not vals:
        raise AnalysisError("%s: %s.%s not found" % (r.id, modname, const))
    v = vals[-1]
    if not (isinstance(v, ast.Call) and ast.unparse(v.func) in ("re.compile", "compile") and v.args and isinstance(v.args[0], ast.Constant)
            and isinstance(v.args[0].value, str)):
        raise AnalysisError("%s: %s is not re.compile(<literal>)" % (r.id, const))
    pattern = v.args[0].value
    flags = 0
    import re
    for a in list(v.args[1:]) + [k.value for k in v.keywords]:
        for n in ast.walk(a):
            if isinstance(n, ast.Attribute) and hasattr(re, n.attr) and isinstance(getattr(re, n.attr), re.RegexFlag):
                flags |= getattr(re, n.attr)
    # how is it applied?  .match (anchored at the start), .fullmatch, .search
    uses = set()
    for f in prog.all_funcs():
        if f.module is not m:
            continue
        for n in ast.walk(f.node):
            if isinstance(n, ast.Call) and isinstance(n.func, ast.Attribute) and isinstance(n.func.value, ast.Name) and n.func.value.id == const:
                uses.add(n.func.attr)
    if not uses:
        raise AnalysisError("%s: %s is never applied" % (r.id, const))
    try:
        main, negs, notes = sre2rx.convert(pattern, flags)
    except sre2rx.Unsupported as e:
        raise AnalysisError("%s: cannot model %r: %s" % (r.id, pattern, e))
    any_ = rx.star(rx.sym(sre2rx.ALPHABET))
    for use in sorted(uses):
        lang = main
        if use == "fullmatch":
            # the whole string must match: strip the free tail / the `$` newline allowance by intersecting with ref's alphabet is not
            # needed — fullmatch is modelled by re-converting with an explicit end anchor
            lang, negs, notes = sre2rx.convert("(?:%s)\\Z" % pattern, flags)
        elif use == "search":
            lang = rx.cat(any_, main)
        elif use != "match":
            raise AnalysisError("%s: %s.%s(...) is not modelled" % (r.id, const, use))
        res = sre2rx.differs(lang, negs, ref)
        r.instance("%s.%s(%r): %s" % (const, use, pattern, "equals the reference language" if res is None else "DIFFERS"))
        if res is not None:
            word, side = res
            run.report(r, "%s:%s:%s(%s)" % (modname, const, side, sre2rx.show(word).encode("unicode_escape").decode()), m.relpath,
                       "%s.%s(...) %s %r, which %s %s: %s" % (
                           const, use, "accepts" if side == "impl-only" else "rejects", sre2rx.show(word),
                           "is not" if side == "impl-only" else "is", what, consequence))
