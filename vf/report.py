"""Findings, rule-instance accounting, known findings, evidence and exit codes."""
import hashlib
import json
import os
import time

VERIF = os.path.dirname(os.path.dirname(os.path.abspath(__file__)))
KNOWN_FILE = os.path.join(VERIF, "known_findings.json")


class Finding:
    def __init__(self, prop, rule, key, where, what, detail=None):
        self.prop = prop
        self.rule = rule
        self.key = key          # stable identity: module:qualname:construct (no line numbers)
        self.where = where      # file:line for humans
        self.what = what
        self.detail = detail or {}

    @property
    def ident(self):
        return "%s|%s" % (self.rule, self.key)

    def to_json(self):
        return {"property": self.prop, "rule": self.rule, "key": self.key, "where": self.where,
                "what": self.what, "detail": self.detail}


class Rule:
    """Accounting for one rule within one run."""

    def __init__(self, rid, text, floor):
        self.id = rid
        self.text = text
        self.floor = floor
        self.instances = 0
        self.samples = []
        self.distinct = set()

    def instance(self, desc, nontrivial=True):
        self.instances += 1
        if nontrivial:
            self.distinct.add(desc)
        if len(self.samples) < 4:
            self.samples.append(desc)


class Run:
    def __init__(self, prop, tier, root):
        self.prop = prop
        self.tier = tier
        self.root = root
        self.rules = {}
        self.order = []
        self.findings = []
        self.t0 = time.time()
        self.assumptions = []
        self.notes = {}
        self.analysed = {"modules": set(), "functions": set()}

    def rule(self, rid, text, floor):
        import re as _re
        full = rid if _re.match(r"^C\d\d\.", rid) else "%s.%s" % (self.prop, rid)
        r = Rule(full, text, floor)
        self.rules[full] = r
        self.order.append(full)
        return r

    def looked_at(self, fi):
        self.analysed["functions"].add(fi.key)
        self.analysed["modules"].add(fi.module.name)

    def report(self, rule, key, where, what, detail=None):
        f = Finding(self.prop, rule.id, key, where, what, detail)
        for g in self.findings:
            if g.ident == f.ident:
                return g
        self.findings.append(f)
        return f

    def assume(self, text):
        if text not in self.assumptions:
            self.assumptions.append(text)


def load_known():
    if not os.path.exists(KNOWN_FILE):
        return {"findings": [], "fixed": []}
    with open(KNOWN_FILE) as f:
        return json.load(f)


def finish(run, seed=0, out_dir=None, quiet=False):
    """Match findings against known findings, write evidence and replay files,
    print KNOWN-FINDING / VIOLATION lines.  Returns the process exit code."""
    out_dir = out_dir or VERIF
    known = load_known()
    known_ids = {}
    for k in known.get("findings", []):
        if k["property"] == run.prop:
            known_ids["%s|%s" % (k["rule"], k["key"])] = k
    new, old = [], []
    for f in run.findings:
        (old if f.ident in known_ids else new).append(f)
    # instance floors
    floor_errors = []
    if getattr(run, "aborted", None):
        floor_errors.append("analysis aborted: %s" % run.aborted)
    for rid in run.order:
        if getattr(run, "aborted", None):
            break
        r = run.rules[rid]
        if r.instances < r.floor:
            floor_errors.append("%s matched %d instances, floor is %d" % (rid, r.instances, r.floor))
    # evidence
    obligations = sum(r.instances for r in run.rules.values())
    distinct = sum(len(r.distinct) for r in run.rules.values())
    samples = []
    for rid in run.order:
        r = run.rules[rid]
        for s in r.samples[:3]:
            samples.append({"rule": rid, "instance": s})
    ev = {
        "property_id": run.prop,
        "tier": run.tier,
        "seed": int(seed),
        "level": "other",
        "coverage": {
            "explanation": "Static analysis of %s/src/py_gql (ast-parsed on this run, never imported). "
                           "Each rule enumerates its instances (functions, call sites, CFG paths, table "
                           "entries, grammar configurations) in the current source and decides each one; "
                           "a rule that matches fewer instances than its hand-confirmed floor is an "
                           "analysis error. Rules: %s" % (
                               run.root, "; ".join("%s = %s" % (rid, run.rules[rid].text) for rid in run.order)),
            "obligations": obligations,
            "discharged": obligations - len(new) - len(old),
            "evaluations": obligations,
            "distinct_nontrivial": distinct,
            "rule": "one evaluation = one rule instance located in the current source (see per_rule); "
                    "distinct_nontrivial counts distinct instance descriptions that matched a real construct",
            "samples": samples,
            "per_rule": {rid: {"instances": run.rules[rid].instances, "floor": run.rules[rid].floor,
                               "what": run.rules[rid].text} for rid in run.order},
            "modules_analysed": sorted(run.analysed["modules"]),
            "functions_analysed": len(run.analysed["functions"]),
            "known_findings_reported": [f.to_json() for f in old],
            "new_findings": [f.to_json() for f in new],
            "notes": run.notes,
            "exhaustive": True,
        },
        "assumptions": run.assumptions,
        "wall_s": round(time.time() - run.t0, 3),
        "violations": len(new),
    }
    ev_dir = os.path.join(out_dir, "evidence")
    os.makedirs(ev_dir, exist_ok=True)
    with open(os.path.join(ev_dir, "%s.json" % run.prop), "w") as f:
        json.dump(ev, f, indent=1, sort_keys=True, default=str)
        f.write("\n")
    if not quiet:
        print("%s tier=%s root=%s rules=%d instances=%d findings=%d (known %d) wall=%.2fs" % (
            run.prop, run.tier, run.root, len(run.rules), obligations, len(run.findings), len(old), ev["wall_s"]))
        for rid in run.order:
            r = run.rules[rid]
            print("  %-10s %4d instances (floor %d)  %s" % (rid, r.instances, r.floor, r.text[:100]))
    if floor_errors and not new:
        for e in floor_errors:
            print("ANALYSIS-ERROR property=%s %s" % (run.prop, e))
        return 2
    for e in floor_errors:
        print("NOTE property=%s %s (violations below take precedence)" % (run.prop, e))
    for f in old:
        print("KNOWN-FINDING: property=%s %s %s [%s] %s" % (run.prop, f.rule, f.key, f.where, f.what))
    code = 0
    if new:
        rdir = os.path.join(out_dir, "replay", run.prop)
        os.makedirs(rdir, exist_ok=True)
        for f in new:
            h = hashlib.sha1(f.ident.encode()).hexdigest()[:12]
            path = os.path.join(rdir, "%s.json" % h)
            with open(path, "w") as fh:
                json.dump(dict(f.to_json(), root=run.root), fh, indent=1, default=str)
            print("FINDING %s %s [%s] %s" % (f.rule, f.key, f.where, f.what))
            print("VIOLATION property=%s replay=%s" % (run.prop, path))
        code = 1
    return code
