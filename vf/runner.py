"""Runs all rules of one property: the property-specific rules (vf/props/cNN.py) and the hygiene bundle (Z1-Z10)
over the modules the property is anchored in (properties.jsonl: anchors.files)."""
import importlib
import json
import os

from . import hygiene, hygiene2, model

HERE = os.path.dirname(os.path.dirname(os.path.abspath(__file__)))
_ANCHORS = None


def anchors(prop):
    global _ANCHORS
    if _ANCHORS is None:
        _ANCHORS = {}
        with open(os.path.join(HERE, "properties.jsonl")) as f:
            for line in f:
                d = json.loads(line)
                _ANCHORS[d["id"]] = d["anchors"].get("files", [])
    return _ANCHORS[prop]


def run_checks(prop, prog, run):
    mod = importlib.import_module("vf.props.%s" % prop.lower())
    mod.check(prog, run)
    files = [f for f in anchors(prop) if f.startswith("src/py_gql")]
    if not files:
        raise model.AnalysisError("%s: no anchored files in properties.jsonl" % prop)
    hygiene.run_bundle(prog, run, files)
    hygiene2.run_bundle(prog, run, files)
