"""E2 — regular expressions over atom sets -> NFA -> on-the-fly product DFA equivalence with a shortest witness."""
import itertools

# regex nodes: ('eps',) ('empty',) ('sym', frozenset(atoms), prov) ('cat', [..]) ('alt', [..]) ('star', r)
EPS = ('eps',)
EMPTY = ('empty',)


def sym(atoms, prov=None):
    atoms = frozenset(atoms)
    if not atoms:
        return EMPTY
    return ('sym', atoms, prov)


def cat(*rs):
    out = []
    for r in rs:
        if r == EMPTY:
            return EMPTY
        if r == EPS:
            continue
        if r[0] == 'cat':
            out.extend(r[1])
        else:
            out.append(r)
    if not out:
        return EPS
    if len(out) == 1:
        return out[0]
    return ('cat', out)


def alt(*rs):
    out = []
    for r in rs:
        if r == EMPTY:
            continue
        if r[0] == 'alt':
            out.extend(r[1])
        else:
            out.append(r)
    if not out:
        return EMPTY
    if len(out) == 1:
        return out[0]
    return ('alt', out)


def star(r):
    if r in (EPS, EMPTY):
        return EPS
    return ('star', r)


def plus(r):
    return cat(r, star(r))


def opt(r):
    return alt(r, EPS)


class NFA:
    def __init__(self):
        self.n = 0
        self.eps = {}
        self.tr = {}  # state -> list of (atoms, prov, target)

    def new(self):
        s = self.n
        self.n += 1
        self.eps[s] = set()
        self.tr[s] = []
        return s

    def build(self, r):
        k = r[0]
        s, e = self.new(), self.new()
        if k == 'eps':
            self.eps[s].add(e)
        elif k == 'empty':
            pass
        elif k == 'sym':
            self.tr[s].append((r[1], r[2], e))
        elif k == 'cat':
            cur = s
            for x in r[1]:
                a, b = self.build(x)
                self.eps[cur].add(a)
                cur = b
            self.eps[cur].add(e)
        elif k == 'alt':
            for x in r[1]:
                a, b = self.build(x)
                self.eps[s].add(a)
                self.eps[b].add(e)
        elif k == 'star':
            a, b = self.build(r[1])
            self.eps[s].add(a)
            self.eps[s].add(e)
            self.eps[b].add(a)
            self.eps[b].add(e)
        elif k == 'auto':
            # ('auto', n_states, start, accepts, [(src, atoms, dst), ...]) : an explicit automaton fragment
            _, n_states, start, accepts, trans = r
            ids = [self.new() for _ in range(n_states)]
            self.eps[s].add(ids[start])
            for a in accepts:
                self.eps[ids[a]].add(e)
            for src, atoms, dst in trans:
                self.tr[ids[src]].append((frozenset(atoms), None, ids[dst]))
        else:
            raise ValueError(k)
        return s, e

    def closure(self, states):
        stack = list(states)
        seen = set(states)
        while stack:
            x = stack.pop()
            for y in self.eps[x]:
                if y not in seen:
                    seen.add(y)
                    stack.append(y)
        return frozenset(seen)


def equivalent(r1, r2, alphabet=None):
    """Return None if L(r1)==L(r2) else (witness list of atoms, 'impl-only'|'ref-only').
    Breadth-first over the product of the two subset automata, so the witness is a shortest one.  Per product state
    the atoms are grouped by the set of transitions they enable (one representative per group)."""
    n1, n2 = NFA(), NFA()
    s1, e1 = n1.build(r1)
    s2, e2 = n2.build(r2)
    start = (n1.closure([s1]), n2.closure([s2]))
    seen = {start: None}
    queue = [start]
    while queue:
        nxt = []
        for st in queue:
            a, b = st
            acc1, acc2 = e1 in a, e2 in b
            if acc1 != acc2:
                w = []
                cur = st
                while seen[cur] is not None:
                    prev, atom = seen[cur]
                    w.append(atom)
                    cur = prev
                return list(reversed(w)), ('impl-only' if acc1 else 'ref-only')
            trans = []
            for x in a:
                for atoms, prov, t in n1.tr[x]:
                    trans.append((atoms, 0, t))
            for x in b:
                for atoms, prov, t in n2.tr[x]:
                    trans.append((atoms, 1, t))
            groups = {}
            for idx, (atoms, side, t) in enumerate(trans):
                for atom in atoms:
                    groups.setdefault(atom, []).append(idx)
            by_sig = {}
            for atom, idxs in groups.items():
                sig = tuple(idxs)
                if sig not in by_sig or str(atom) < str(by_sig[sig]):
                    by_sig[sig] = atom       # deterministic representative (set iteration order depends on the hash seed)
            for idxs, atom in sorted(by_sig.items(), key=lambda kv: str(kv[1])):
                ta = set(trans[i][2] for i in idxs if trans[i][1] == 0)
                tb = set(trans[i][2] for i in idxs if trans[i][1] == 1)
                ns = (n1.closure(ta), n2.closure(tb))
                if ns not in seen:
                    seen[ns] = (st, atom)
                    nxt.append(ns)
        queue = nxt
    return None
