"""Sensitivity suite: seeded source edits that must be reported (mutants) and
behaviour-preserving edits that must stay silent (twins).

A variant is an edit of files under ``src/py_gql`` applied to a scratch copy of
the *current* tree in a temporary directory (removed afterwards); the
property's rules are then run on the copy, in a process pool.  A variant whose
anchor text is not present in the current tree is skipped (the tree has moved
on), never failed.  A mutant that applies and is not reported with the expected
rule, or a twin that produces a finding the base tree does not have, is a
sensitivity problem (reported as an analysis error by the thorough tier).
"""
import concurrent.futures as cf
import importlib
import os
import shutil
import sys
import tempfile

from . import model, report

HERE = os.path.dirname(os.path.dirname(os.path.abspath(__file__)))


class Variant:
    def __init__(self, prop, name, edits, expect=None, why=""):
        """edits: list of (relative file under src/py_gql, old text, new text[, count]).
        expect: rule id (e.g. 'C19.D1') that must report, or None for a benign twin."""
        self.prop = prop
        self.name = name
        self.edits = edits
        self.expect = expect
        self.why = why


def _registry(prop):
    out = []
    try:
        mod = importlib.import_module("vf.variants.%s" % prop.lower())
        out.extend(mod.VARIANTS)
    except ImportError:
        pass
    # regressions: every repaired defect, re-introduced by reverse-applying its fix commit's diff
    fdir = os.path.join(HERE, "vf", "variants", "fixes")
    idx = os.path.join(fdir, "index.json")
    if os.path.exists(idx):
        import json
        for commit, entries in sorted(json.load(open(idx)).items()):
            for p, what in entries:
                if p == prop:
                    v = Variant(prop, "revert-fix-%s" % commit, [], expect="%s." % prop, why=what)
                    v.patch = (os.path.join(fdir, commit + ".diff"), True)
                    out.append(v)
    # independently seeded breaking changes kept under /verif/seeded
    sdir = os.path.join(HERE, "seeded")
    if os.path.isdir(sdir):
        import json
        for sid in sorted(os.listdir(sdir)):
            meta = os.path.join(sdir, sid, "meta.json")
            patch = os.path.join(sdir, sid, "patch.diff")
            if os.path.exists(meta) and os.path.exists(patch) and json.load(open(meta)).get("breaks_property") == prop:
                v = Variant(prop, "seeded-%s" % sid, [], expect="%s." % prop, why=json.load(open(meta)).get("change", ""))
                v.patch = (patch, False)
                out.append(v)
    # independently written behaviour-preserving refactorings kept under /verif/twins: silent under every property
    tdir = os.path.join(HERE, "twins")
    if os.path.isdir(tdir):
        for tid in sorted(os.listdir(tdir)):
            patch = os.path.join(tdir, tid, "patch.diff")
            if os.path.exists(patch):
                v = Variant(prop, "refactor-%s" % tid, [], expect=None, why="behaviour-preserving refactoring written without knowledge of the checks")
                v.patch = (patch, False)
                ka = os.path.join(tdir, tid, "known_alarms.json")
                if os.path.exists(ka):
                    import json
                    v.known_alarms = json.load(open(ka)).get(prop, [])      # documented false alarms of the machinery (DESIGN 8.6h)
                out.append(v)
    # mechanical whole-package transformations (tools/mech_twins.py): silent under every property
    for kind in ("alpha", "swap", "ifexp", "elif", "comp", "hoist", "all", "guard", "unguard", "splitand", "all2"):
        v = Variant(prop, "mechanical-%s" % kind, [], expect=None,
                    why="mechanical behaviour-preserving transformation of every function of the package (%s)" % kind)
        v.transform = kind
        out.append(v)
    return out


def _apply(root, variant):
    kind = getattr(variant, "transform", None)
    if kind is not None:
        sys.path.insert(0, os.path.join(HERE, "tools"))
        import mech_twins
        return mech_twins.transform(kind, os.path.join(root, "src")) > 0
    patch = getattr(variant, "patch", None)
    if patch is not None:
        import subprocess
        cmd = ["git", "apply"] + (["-R"] if patch[1] else []) + [patch[0]]
        r = subprocess.run(cmd, cwd=root, capture_output=True, text=True)
        return r.returncode == 0
    for e in variant.edits:
        rel, old, new = e[0], e[1], e[2]
        p = os.path.join(root, "src", "py_gql", rel)
        with open(p, encoding="utf-8") as f:
            s = f.read()
        if old not in s:
            return False
        s = s.replace(old, new, e[3] if len(e) > 3 else 1)
        with open(p, "w", encoding="utf-8") as f:
            f.write(s)
    return True


def _run_variant(args):
    prop, name, root, base_idents = args
    sys.path.insert(0, HERE)
    variant = [v for v in _registry(prop) if v.name == name][0]
    tmp = tempfile.mkdtemp(prefix="vf-selftest-")
    try:
        shutil.copytree(os.path.join(root, "src", "py_gql"), os.path.join(tmp, "src", "py_gql"),
                        ignore=shutil.ignore_patterns("__pycache__"))
        if not _apply(tmp, variant):
            return (name, "skipped", "anchor text not present in the current tree")
        try:
            import ast
            for dirpath, _, files in os.walk(os.path.join(tmp, "src")):
                for fn in files:
                    if fn.endswith(".py"):
                        ast.parse(open(os.path.join(dirpath, fn), encoding="utf-8").read())
        except SyntaxError as e:
            return (name, "problem", "variant does not compile: %s" % e)
        try:
            prog = model.Program(tmp)
            from . import runner
            run = report.Run(prop, "quick", tmp)
            run.only_rules = None
            runner.run_checks(prop, prog, run)
        except model.AnalysisError as e:
            if variant.expect is None:
                if any(rid in str(e) for rid in getattr(variant, "known_alarms", ())):
                    return (name, "known-false-alarm", "analysis refuses this refactoring (documented limitation): %s" % str(e)[:120])
                return (name, "problem", "benign twin made the analysis fail: %s" % e)
            return (name, "detected-as-analysis-error", str(e))
        except Exception as e:      # an internal error of a checker is a defect of the machinery, whatever the variant
            import traceback
            return (name, "problem", "internal error: %s: %s" % (type(e).__name__, traceback.format_exc().splitlines()[-3:]))
        idents = {f.ident for f in run.findings}
        new = idents - set(base_idents)
        if variant.expect is None:
            if new:
                ka = getattr(variant, "known_alarms", ())
                if ka and all(any(i.startswith(rid + "|") for rid in ka) for i in new):
                    return (name, "known-false-alarm", "documented limitation: %s" % sorted(new)[:3])
                return (name, "problem", "benign twin raised: %s" % sorted(new))
            return (name, "silent", "")
        hit = [i for i in new if i.startswith(variant.expect + "|") or (variant.expect.endswith(".") and i.startswith(variant.expect))]
        if hit:
            return (name, "detected", hit[0])
        return (name, "problem", "mutant not reported by %s (new findings: %s)" % (variant.expect, sorted(new)))
    finally:
        shutil.rmtree(tmp, ignore_errors=True)


def run_for(prop, root, base_run, jobs=None):
    variants = _registry(prop)
    if not variants:
        base_run.notes["sensitivity"] = "no variants registered"
        return []
    base_idents = sorted({f.ident for f in base_run.findings})
    jobs = jobs or min(16, len(variants))
    results = []
    with cf.ProcessPoolExecutor(max_workers=jobs) as ex:
        for res in ex.map(_run_variant, [(prop, v.name, root, base_idents) for v in variants]):
            results.append(res)
    problems = ["%s: %s" % (n, d) for n, st, d in results if st == "problem"]
    base_run.notes["sensitivity"] = {
        "variants": len(variants),
        "detected": sum(1 for r in results if r[1].startswith("detected")),
        "silent_twins": sum(1 for r in results if r[1] == "silent"),
        "skipped": sum(1 for r in results if r[1] == "skipped"),
        "known_false_alarms": sum(1 for r in results if r[1] == "known-false-alarm"),
        "results": [{"variant": n, "status": st, "detail": d} for n, st, d in results],
    }
    return problems


def main(argv):
    """Standalone: python -m vf.selftest [PROP ...] [--root R]"""
    import argparse
    ap = argparse.ArgumentParser()
    ap.add_argument("props", nargs="*")
    ap.add_argument("--root", default="/repo")
    a = ap.parse_args(argv)
    props = a.props or sorted(p[:-3].upper() for p in os.listdir(os.path.join(HERE, "vf", "props")) if len(p) == 6 and p.startswith("c") and p.endswith(".py"))
    rc = 0
    for p in props:
        prog = model.Program(a.root)
        from . import runner
        run = report.Run(p, "quick", a.root)
        run.only_rules = None
        runner.run_checks(p, prog, run)
        problems = run_for(p, a.root, run)
        s = run.notes.get("sensitivity")
        if isinstance(s, dict):
            print("%s: %d variants, %d detected, %d silent twins, %d skipped" % (p, s["variants"], s["detected"], s["silent_twins"], s["skipped"]))
            for r in s["results"]:
                print("   %-40s %-28s %s" % (r["variant"], r["status"], r["detail"][:110]))
        for pr in problems:
            print("PROBLEM %s %s" % (p, pr))
            rc = 1
    return rc


if __name__ == "__main__":
    sys.path.insert(0, HERE)
    sys.exit(main(sys.argv[1:]))
