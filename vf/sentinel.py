"""Narrow sentinel handlers.

`try: x = seq.pop(0) / d[k] / next(it)  except IndexError/KeyError/StopIteration:`
is this repository's idiom for "no more items / not cached".  The handler means
"the lookup found nothing" only while the try body contains nothing but that
lookup.  A body that also calls repository code, a bound method or a local
callable turns an unrelated IndexError/KeyError raised deep inside (a resolver,
a continuation) into "nothing found": the exception is swallowed and the
computation silently ends early.
"""
import ast

from .model import own_nodes

SENTINELS = {"IndexError", "KeyError", "StopIteration", "LookupError"}
PURE_METHODS = {"pop", "popleft", "get", "index", "split", "rsplit", "appendleft", "append", "items", "keys", "values"}


def check(prog, run, rule_id, prefixes, floor, consequence):
    r = run.rule(rule_id, "every `try` whose handler catches IndexError / KeyError / StopIteration (the lookup-sentinel idiom) in %s "
                          "guards only the lookup: its body calls no repository function, no method of self and no local callable, "
                          "so the handler cannot swallow an exception raised by unrelated code (%s)" % (", ".join(p + "/**" for p in prefixes), consequence), floor)
    for f in prog.all_funcs():
        if not any(f.module.name == p or f.module.name.startswith(p + ".") for p in prefixes):
            continue
        for n in own_nodes(f.node):
            if not isinstance(n, ast.Try):
                continue
            caught = set()
            for h in n.handlers:
                if h.type is not None:
                    caught |= {x.id for x in ast.walk(h.type) if isinstance(x, ast.Name)}
            if not (caught & SENTINELS):
                continue
            run.looked_at(f)
            r.instance("%s: try guarding `%s`" % (f.qualname, " ".join(ast.unparse(n.body[0]).split())[:60]))
            for st in n.body:
                for c in ast.walk(st):
                    if not isinstance(c, ast.Call):
                        continue
                    fn = c.func
                    ok = False
                    if isinstance(fn, ast.Name) and fn.id in ("next", "len", "int", "str", "iter", "tuple", "list", "cast", "type", "id", "hash", "repr", "isinstance", "getattr", "frozenset", "set", "dict", "min", "max", "sorted"):
                        ok = True
                    elif isinstance(fn, ast.Attribute) and fn.attr in PURE_METHODS and not (isinstance(fn.value, ast.Name) and fn.value.id == "self"):
                        ok = True
                    if not ok:
                        run.report(r, "%s:%s:wide-sentinel-handler(%s)" % (f.module.name, f.qualname, " ".join(ast.unparse(fn).split())), f.where(c),
                                   "`%s` is called inside a try whose handler treats %s as 'nothing found': the same exception raised "
                                   "inside that call (user code, a continuation) is swallowed and the computation ends early instead of failing"
                                   % (" ".join(ast.unparse(c).split())[:80], "/".join(sorted(caught & SENTINELS))))
