"""Shared structural helpers: isinstance-dispatch analysis, attribute reads of a
parameter (through helpers), comprehension/loop sites."""
import ast

from .model import own_nodes, AnalysisError, norm_stmt


def class_names_in(expr):
    """Names of classes mentioned in an isinstance second argument / ``is`` operand."""
    out = []
    if isinstance(expr, ast.Tuple):
        for e in expr.elts:
            out.extend(class_names_in(e))
    elif isinstance(expr, ast.Attribute):
        out.append(expr.attr)
    elif isinstance(expr, ast.Name):
        out.append(expr.id)
    return out


def class_tests(expr, var):
    """Yield (class names tuple, exprnode, positive) for type tests on variable
    ``var`` inside boolean expression ``expr``:
    isinstance(var, C) / type(var) is C / var.__class__ is C / type(var) in (..)."""
    for n in ast.walk(expr):
        if isinstance(n, ast.Call) and isinstance(n.func, ast.Name) and n.func.id == "isinstance" and len(n.args) == 2:
            if isinstance(n.args[0], ast.Name) and n.args[0].id == var:
                yield tuple(class_names_in(n.args[1])), n
        elif isinstance(n, ast.Compare) and len(n.ops) == 1 and isinstance(n.ops[0], (ast.Is, ast.Eq, ast.In)):
            l = n.left
            is_type_of = (
                isinstance(l, ast.Call) and isinstance(l.func, ast.Name) and l.func.id == "type"
                and len(l.args) == 1 and isinstance(l.args[0], ast.Name) and l.args[0].id == var
            ) or (
                isinstance(l, ast.Attribute) and l.attr == "__class__"
                and isinstance(l.value, ast.Name) and l.value.id == var
            )
            if is_type_of:
                yield tuple(class_names_in(n.comparators[0])), n


def class_tests_signed(expr, var):
    """Like class_tests, with the polarity of each test inside ``expr``:
    (names, node, positive) where positive is False under an odd number of ``not``
    (or for ``is not`` / ``not in`` / ``!=`` comparisons)."""
    def rec(e, pos):
        if isinstance(e, ast.UnaryOp) and isinstance(e.op, ast.Not):
            for x in rec(e.operand, not pos):
                yield x
        elif isinstance(e, ast.BoolOp):
            for v in e.values:
                for x in rec(v, pos):
                    yield x
        else:
            for names, n in class_tests(e, var):
                yield names, n, pos
            if isinstance(e, ast.Compare) and len(e.ops) == 1 and isinstance(e.ops[0], (ast.IsNot, ast.NotEq, ast.NotIn)):
                pe = ast.Compare(left=e.left, ops=[ast.Is()], comparators=e.comparators)
                for names, _n in class_tests(pe, var):
                    yield names, e, not pos
    return list(rec(expr, True))


def signed_subterms(expr, pred):
    """(node, positive) for every sub-term of the boolean expression ``expr`` satisfying ``pred``; ``positive`` is False
    under an odd number of enclosing ``not``.  (and/or keep polarity; other operators are opaque.)"""
    out = []

    def rec(e, pos):
        if pred(e):
            out.append((e, pos))
            return
        if isinstance(e, ast.UnaryOp) and isinstance(e.op, ast.Not):
            rec(e.operand, not pos)
        elif isinstance(e, ast.BoolOp):
            for v in e.values:
                rec(v, pos)
    rec(expr, True)
    return out


def raises_unconditionally(body):
    """True when the statement list ends in a raise on every path (shallow)."""
    if not body:
        return False
    last = body[-1]
    if isinstance(last, ast.Raise):
        return True
    if isinstance(last, ast.If) and last.orelse:
        return raises_unconditionally(last.body) and raises_unconditionally(last.orelse)
    return False


class DispatchSite:
    def __init__(self, fi, node, var, kind):
        self.fi = fi
        self.node = node
        self.var = var
        self.kind = kind  # 'for' | 'comp' | 'param'
        self.classes = set()
        self.default = None  # None | 'raise' | 'handled'


def _if_chain_default(stmts, var):
    """Walk statements: find the first if/elif chain testing ``var``'s class and
    report what the trailing else does."""
    for st in stmts:
        if isinstance(st, ast.If) and list(class_tests(st.test, var)):
            cur = st
            while True:
                if not cur.orelse:
                    return None
                if len(cur.orelse) == 1 and isinstance(cur.orelse[0], ast.If) and list(class_tests(cur.orelse[0].test, var)):
                    cur = cur.orelse[0]
                    continue
                return "raise" if raises_unconditionally(cur.orelse) else "handled"
    return None


def selection_dispatch_sites(prog, fis):
    """Sites in functions ``fis`` that iterate a ``.selections`` list (or a
    parameter named ``selections``) and test the element's class, plus functions
    with a parameter annotated ``Selection`` that test its class."""
    sites = []

    def is_selections(e):
        return (isinstance(e, ast.Attribute) and e.attr == "selections") or (
            isinstance(e, ast.Name) and e.id == "selections")

    for fi in fis:
        for n in own_nodes(fi.node):
            if isinstance(n, ast.For) and is_selections(n.iter) and isinstance(n.target, ast.Name):
                s = DispatchSite(fi, n, n.target.id, "for")
                for st in n.body:
                    for x in ast.walk(st):
                        if isinstance(x, (ast.If, ast.IfExp)):
                            for names, _ in class_tests(x.test, s.var):
                                s.classes.update(names)
                s.default = _if_chain_default(n.body, s.var)
                if s.classes:
                    sites.append(s)
            elif isinstance(n, (ast.ListComp, ast.GeneratorExp, ast.SetComp, ast.DictComp)):
                for g in n.generators:
                    if is_selections(g.iter) and isinstance(g.target, ast.Name):
                        s = DispatchSite(fi, n, g.target.id, "comp")
                        for cond in g.ifs:
                            for names, _ in class_tests(cond, s.var):
                                s.classes.update(names)
                        if s.classes:
                            sites.append(s)
        # parameter dispatch
        a = fi.node.args
        for p in a.args:
            ann = p.annotation
            if ann is not None and ast.unparse(ann).split(".")[-1] == "Selection":
                s = DispatchSite(fi, fi.node, p.arg, "param")
                for x in own_nodes(fi.node):
                    if isinstance(x, (ast.If, ast.IfExp)):
                        for names, _ in class_tests(x.test, s.var):
                            s.classes.update(names)
                s.default = _if_chain_default(fi.node.body, s.var)
                if s.classes:
                    sites.append(s)
    return sites


def attr_reads(prog, fi, param, depth=3, _seen=None):
    """Attributes read on parameter ``param`` of ``fi``: directly
    (``param.attr``, ``getattr(param, 'attr')``) or in resolved callees that
    receive ``param`` as an argument (followed up to ``depth``)."""
    _seen = _seen if _seen is not None else set()
    key = (fi.key, param)
    if key in _seen:
        return set()
    _seen.add(key)
    out = set()
    for n in ast.walk(fi.node):
        if isinstance(n, ast.Attribute) and isinstance(n.value, ast.Name) and n.value.id == param and isinstance(n.ctx, ast.Load):
            out.add(n.attr)
        elif isinstance(n, ast.Call):
            if isinstance(n.func, ast.Name) and n.func.id == "getattr" and len(n.args) >= 2:
                if isinstance(n.args[0], ast.Name) and n.args[0].id == param and isinstance(n.args[1], ast.Constant):
                    out.add(n.args[1].value)
            if depth > 0:
                for i, a in enumerate(n.args):
                    if isinstance(a, ast.Name) and a.id == param:
                        for callee in prog.resolve_call(fi, n):
                            ps = callee.params
                            off = 1 if (callee.cls is not None and ps and ps[0] in ("self", "cls")) else 0
                            if i + off < len(ps):
                                out |= attr_reads(prog, callee, ps[i + off], depth - 1, _seen)
                for kw in n.keywords:
                    if isinstance(kw.value, ast.Name) and kw.value.id == param and kw.arg:
                        for callee in prog.resolve_call(fi, n):
                            if kw.arg in callee.all_params:
                                out |= attr_reads(prog, callee, kw.arg, depth - 1, _seen)
    return out


def passes_as_keyword(prog, fi, param, names, depth=2, _seen=None):
    """True when ``param`` itself is handed on under one of the keyword names ``names`` (``node=param`` / ``nodes=[param]``),
    in ``fi`` or in a resolved callee that receives ``param`` (followed up to ``depth``)."""
    _seen = _seen if _seen is not None else set()
    if (fi.key, param) in _seen:
        return False
    _seen.add((fi.key, param))
    for n in ast.walk(fi.node):
        if isinstance(n, ast.keyword) and n.arg in names and any(isinstance(x, ast.Name) and x.id == param for x in ast.walk(n.value)):
            return True
        if isinstance(n, ast.Call) and depth > 0:
            for i, a in enumerate(n.args):
                if isinstance(a, ast.Name) and a.id == param:
                    for callee in prog.resolve_call(fi, n):
                        ps = callee.params
                        off = 1 if (callee.cls is not None and ps and ps[0] in ("self", "cls")) else 0
                        if i + off < len(ps) and passes_as_keyword(prog, callee, ps[i + off], names, depth - 1, _seen):
                            return True
            for kw in n.keywords:
                if isinstance(kw.value, ast.Name) and kw.value.id == param and kw.arg:
                    for callee in prog.resolve_call(fi, n):
                        if kw.arg in callee.all_params and passes_as_keyword(prog, callee, kw.arg, names, depth - 1, _seen):
                            return True
    return False


def calls_in(fn_node, own=True):
    it = own_nodes(fn_node) if own else ast.walk(fn_node)
    for n in it:
        if isinstance(n, ast.Call):
            yield n


def call_name(call):
    f = call.func
    if isinstance(f, ast.Name):
        return f.id
    if isinstance(f, ast.Attribute):
        return f.attr
    return None


def require(cond, msg):
    if not cond:
        raise AnalysisError(msg)
