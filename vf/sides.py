"""Two-sided comparison functions keep their sides apart.

In a function that relates two values of the same role (`types_overlap(rhs, lhs)`, `is_subtype(type_, super_type)`,
`_types_conflict(type_1, type_2)`, `_is_safe_*_type_change(old_type, new_type)`), an assignment that gives one side's
parameter (or a local derived only from it) the value of the other side — other than a complete swap `a, b = b, a` — makes
the rest of the function compare one side with itself: the answer no longer depends on the other argument.
"""
import ast

from .model import own_nodes

PAIRS = (("lhs", "rhs"), ("type_", "super_type"), ("type_1", "type_2"), ("old_type", "new_type"), ("old", "new"),
         ("parent_type_1", "parent_type_2"), ("field_1", "field_2"), ("fragment_1", "fragment_2"), ("a", "b"))


def check(prog, run, rule_id, prefixes, floor):
    r = run.rule(rule_id, "two-sided comparison functions in %s (parameters lhs/rhs, type_/super_type, x_1/x_2, old_*/new_*) never assign "
                          "one side's parameter — or a local derived from it (`rhs_types`) — a value derived from the other side, except as "
                          "a complete swap of every such name: after a half swap the function compares one side with itself, its answer "
                          "stops depending on the other argument and is no longer symmetric" % ", ".join(p + "/**" for p in prefixes), floor)
    for f in prog.all_funcs():
        if not any(f.module.name == p or f.module.name.startswith(p + ".") for p in prefixes):
            continue
        params = set(f.all_params)
        pair = next(((a, b) for a, b in PAIRS if a in params and b in params), None)
        if pair is None:
            continue
        a, b = pair
        r.instance("%s(%s, %s)" % (f.qualname, a, b))
        # locals derived from exactly one side
        side = {a: "A", b: "B"}
        changed = True
        assigns = [x for x in own_nodes(f.node) if isinstance(x, ast.Assign)]
        while changed:
            changed = False
            for x in assigns:
                tgts = x.targets[0].elts if isinstance(x.targets[0], (ast.Tuple, ast.List)) else x.targets
                vals = x.value.elts if isinstance(x.value, (ast.Tuple, ast.List)) and isinstance(x.targets[0], (ast.Tuple, ast.List)) \
                    and len(x.value.elts) == len(tgts) else [x.value] * len(tgts)
                for t, v in zip(tgts, vals):
                    if isinstance(t, ast.Name) and t.id not in side:
                        srcs = {side[n.id] for n in ast.walk(v) if isinstance(n, ast.Name) and n.id in side}
                        if len(srcs) == 1:
                            side[t.id] = next(iter(srcs))
                            changed = True
        for x in assigns:
            tgts = x.targets[0].elts if isinstance(x.targets[0], (ast.Tuple, ast.List)) else x.targets
            vals = x.value.elts if isinstance(x.value, (ast.Tuple, ast.List)) and isinstance(x.targets[0], (ast.Tuple, ast.List)) \
                and len(x.value.elts) == len(tgts) else [x.value] * len(tgts)
            crossing, total = [], 0
            for t, v in zip(tgts, vals):
                if isinstance(t, ast.Name) and t.id in (a, b):
                    total += 1
                    srcs = {side[n.id] for n in ast.walk(v) if isinstance(n, ast.Name) and n.id in side}
                    if srcs == {"B" if side[t.id] == "A" else "A"}:
                        crossing.append(t.id)
            # a complete swap assigns both parameters from the opposite side in one statement
            if crossing and not (set(crossing) == {a, b}):
                run.report(r, "%s:%s:half-swap(%s)" % (f.module.name, f.qualname, ",".join(crossing)), f.where(x),
                           "`%s` gives `%s` the value of the other side without giving the other side this one's: from here on both names "
                           "denote the same argument" % (" ".join(ast.unparse(x).split())[:80], ", ".join(crossing)))
