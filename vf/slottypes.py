"""A small annotation-driven type inference for AST-node-typed expressions.

Purpose: decide, without running anything, that an attribute read on an
expression whose static type is a *set of AST node classes* exists on every
class of the set (``a1.value.value`` with ``a1: Argument`` reads ``.value`` on
``Value``, which ListValue/ObjectValue/NullValue/Variable lack), and that a
``str`` (a name) is not used where a sequence of elements is expected.  mypy is
not available in this sandbox; this engine covers the slice of its job that the
"never raises an internal exception" clauses need, for code that is annotated
the way this repository annotates (PEP 484 annotations and ``# type:`` comments).

Types
  ("node", frozenset(class names))   AST node of one of these concrete classes
  ("list", T)                        homogeneous iterable / sequence of T
  ("tuple", (T1, T2, ...))
  ("map", K, V)
  ("str",)
  None                               unknown (never reported on)

The inference is flow-insensitive per scope (function, lambda, comprehension)
with ``isinstance`` narrowing on syntactically identical expressions, and is
deliberately partial: anything it does not understand is unknown.
"""
import ast

from .model import own_nodes, norm_stmt

LISTY = {"List", "Sequence", "Iterable", "Iterator", "Set", "FrozenSet", "Collection", "MutableSequence", "AbstractSet", "Deque", "Generator"}
MAPPY = {"Dict", "Mapping", "MutableMapping", "OrderedDict", "DefaultDict"}
OBJECT_ATTRS = set(dir(object))


def union(a, b):
    if a is None or b is None:
        return None
    if a == b:
        return a
    if a[0] == "node" and b[0] == "node":
        return ("node", a[1] | b[1])
    if a[0] == "list" and b[0] == "list":
        e = union(a[1], b[1])
        return ("list", e) if e is not None else None
    return None


class Engine:
    def __init__(self, prog, ncs, abstract):
        self.prog = prog
        self.ncs = ncs
        self.abstract = abstract
        self.slot_types = {}       # (class, slot) -> type
        self._tc = {}              # module name -> {(lineno, col): type comment}
        for cname, nc in ncs.items():
            a = nc.init.node.args
            for x in list(a.args[1:]) + list(a.kwonlyargs):
                self.slot_types[(cname, x.arg)] = self.parse_ann(x.annotation, nc.ci.module)
        self.reads = 0
        self.problems = []
        self.param_types = {}      # (function key, parameter) -> type, for parameters typed by a dispatch table

    # ---- annotations
    def expand(self, names):
        out = set()
        for n in names:
            if n in self.ncs:
                out.add(n)
            elif n in self.abstract:
                a = self.abstract[n]
                out |= {c for c, nc in self.ncs.items() if nc.ci.is_subclass_of(a)}
        return frozenset(out)

    def parse_ann(self, ann, module=None):
        if ann is None:
            return None
        if isinstance(ann, ast.Constant) and isinstance(ann.value, str):
            try:
                return self.parse_ann(ast.parse(ann.value, mode="eval").body, module)
            except SyntaxError:
                return None
        if isinstance(ann, ast.Constant) and ann.value is None:
            return None
        if isinstance(ann, ast.Attribute) and isinstance(ann.value, ast.Name) and ann.value.id in ("_ast", "ast"):
            k = self.expand([ann.attr])
            return ("node", k) if k else None
        if isinstance(ann, ast.Name):
            if ann.id == "str":
                return ("str",)
            if module is not None and (ann.id in self.ncs or ann.id in self.abstract):
                # a bare class name counts only when it is bound to the class of lang.ast in that module
                r = self.prog.resolve_name(module, ann.id)
                if r and r[0] == "class" and r[1].module.name == "py_gql.lang.ast":
                    k = self.expand([ann.id])
                    return ("node", k) if k else None
            return None
        if isinstance(ann, ast.Subscript):
            base = ann.value.attr if isinstance(ann.value, ast.Attribute) else (ann.value.id if isinstance(ann.value, ast.Name) else None)
            sl = ann.slice
            args = list(sl.elts) if isinstance(sl, ast.Tuple) else [sl]
            if base == "Optional":
                return self.parse_ann(args[0], module)
            if base in LISTY:
                e = self.parse_ann(args[0], module)
                return ("list", e) if e is not None else None
            if base == "Tuple":
                if len(args) == 2 and isinstance(args[1], ast.Constant) and args[1].value is Ellipsis:
                    e = self.parse_ann(args[0], module)
                    return ("list", e) if e is not None else None
                return ("tuple", tuple(self.parse_ann(x, module) for x in args))
            if base in MAPPY and len(args) == 2:
                return ("map", self.parse_ann(args[0], module), self.parse_ann(args[1], module))
            if base == "Union":
                ts = [self.parse_ann(x, module) for x in args if not (isinstance(x, ast.Constant) and x.value is None)]
                if ts and all(t is not None and t[0] == "node" for t in ts):
                    out = ts[0]
                    for t in ts[1:]:
                        out = union(out, t)
                    return out
                return None
        return None

    def type_comment(self, module, node):
        tc = self._tc.get(module.name)
        if tc is None:
            tc = {}
            try:
                tree = ast.parse(module.src, type_comments=True)
                for n in ast.walk(tree):
                    c = getattr(n, "type_comment", None)
                    if c and hasattr(n, "lineno"):
                        tc[(n.lineno, n.col_offset)] = c
            except SyntaxError:
                pass
            self._tc[module.name] = tc
        c = tc.get((getattr(node, "lineno", -1), getattr(node, "col_offset", -1)))
        if not c:
            return None
        try:
            return self.parse_ann(ast.parse(c, mode="eval").body, module)
        except SyntaxError:
            return None

    # ---- attribute facts
    def has_attr(self, cname, attr):
        nc = self.ncs.get(cname)
        if nc is None:
            return True
        if attr in nc.slots or attr in OBJECT_ATTRS:
            return True
        for k in nc.ci.mro():
            if attr in k.methods or k.find_attr(attr):
                return True
        return False

    def attr_type(self, t, attr):
        if t is None or t[0] != "node":
            return None
        out = "start"
        for c in t[1]:
            if not self.has_attr(c, attr):
                continue
            st = self.slot_types.get((c, attr))
            if st is None:
                return None
            out = st if out == "start" else union(out, st)
            if out is None:
                return None
        return None if out == "start" else out

    # ---- scopes and bindings
    def analyse(self, fi):
        """Check every attribute read / str-as-sequence use in ``fi`` (nested lambdas and comprehensions included,
        nested defs excluded: they are functions of their own)."""
        fa = _FuncAnalysis(self, fi)
        fa.run()


def _elem(t):
    if t is None:
        return None
    if t[0] == "list":
        return t[1]
    if t[0] == "map":
        return t[1]
    if t[0] == "str":
        return ("str",)
    return None


class _FuncAnalysis:
    def __init__(self, eng, fi):
        self.eng = eng
        self.fi = fi
        self.prog = eng.prog
        self.binding_cache = {}
        self.in_progress = set()
        # function-level bindings: name -> list of ("ann", ann) | ("expr", value) | ("elem", iter expr) | ("unpack", ...)
        self.bind = {}
        a = fi.node.args
        for x in a.posonlyargs + a.args + a.kwonlyargs:
            pt = eng.param_types.get((fi.key, x.arg))
            self.bind.setdefault(x.arg, []).append(("type", pt) if pt is not None else ("ann", x.annotation))
        for n in own_nodes(fi.node):
            self._collect(n, self.bind)

    def _collect(self, n, table):
        if isinstance(n, ast.Assign) and len(n.targets) == 1:
            t = n.targets[0]
            tc = self.eng.type_comment(self.fi.module, n)
            if isinstance(t, ast.Name):
                table.setdefault(t.id, []).append(("type", tc) if tc is not None else ("expr", n.value))
            elif isinstance(t, (ast.Tuple, ast.List)):
                for i, e in enumerate(t.elts):
                    if isinstance(e, ast.Name):
                        table.setdefault(e.id, []).append(("unpack", n.value, i))
        elif isinstance(n, ast.Assign):
            for t in n.targets:
                for e in ast.walk(t):
                    if isinstance(e, ast.Name):
                        table.setdefault(e.id, []).append(("unknown",))
        elif isinstance(n, ast.AnnAssign) and isinstance(n.target, ast.Name):
            table.setdefault(n.target.id, []).append(("ann", n.annotation))
        elif isinstance(n, ast.AugAssign) and isinstance(n.target, ast.Name):
            table.setdefault(n.target.id, []).append(("unknown",))
        elif isinstance(n, (ast.For, ast.AsyncFor)):
            self._bind_target(n.target, n.iter, table)
        elif isinstance(n, (ast.With, ast.AsyncWith)):
            for it in n.items:
                if it.optional_vars is not None:
                    for e in ast.walk(it.optional_vars):
                        if isinstance(e, ast.Name):
                            table.setdefault(e.id, []).append(("unknown",))
        elif isinstance(n, ast.ExceptHandler) and n.name:
            table.setdefault(n.name, []).append(("unknown",))
        elif isinstance(n, ast.NamedExpr) and isinstance(n.target, ast.Name):
            table.setdefault(n.target.id, []).append(("expr", n.value))

    def _bind_target(self, target, iter_expr, table):
        if isinstance(target, ast.Name):
            table.setdefault(target.id, []).append(("elem", iter_expr))
        elif isinstance(target, (ast.Tuple, ast.List)):
            for i, e in enumerate(target.elts):
                if isinstance(e, ast.Name):
                    table.setdefault(e.id, []).append(("elem_unpack", iter_expr, i))
                else:
                    for x in ast.walk(e):
                        if isinstance(x, ast.Name):
                            table.setdefault(x.id, []).append(("unknown",))

    # scope lookup: lambda / comprehension ancestors first
    def _scope_binding(self, name_node):
        name = name_node.id
        cur = name_node
        while getattr(cur, "_parent", None) is not None and cur is not self.fi.node:
            par = cur._parent
            if isinstance(par, ast.Lambda):
                ps = [x.arg for x in par.args.posonlyargs + par.args.args + par.args.kwonlyargs]
                if name in ps:
                    return [("lambda", par, ps.index(name))]
            if isinstance(par, (ast.ListComp, ast.SetComp, ast.GeneratorExp, ast.DictComp)):
                table = {}
                for g in par.generators:
                    self._bind_target(g.target, g.iter, table)
                if name in table:
                    return table[name]
            cur = par
        return self.bind.get(name)

    def infer(self, e, depth=0):
        if depth > 12 or e is None:
            return None
        eng = self.eng
        if isinstance(e, ast.Name):
            key = id(e)
            if key in self.in_progress:
                return None
            bs = self._scope_binding(e)
            if not bs:
                return None
            self.in_progress.add(key)
            try:
                out = "start"
                for b in bs:
                    t = self._binding_type(b, depth + 1)
                    if t is None:
                        return None
                    out = t if out == "start" else union(out, t)
                    if out is None:
                        return None
                return None if out == "start" else out
            finally:
                self.in_progress.discard(key)
        if isinstance(e, ast.Attribute):
            return eng.attr_type(self.narrowed(e.value, self.infer(e.value, depth + 1)), e.attr)
        if isinstance(e, ast.Subscript):
            t = self.infer(e.value, depth + 1)
            if t is None:
                return None
            if isinstance(e.slice, ast.Slice):
                return t if t[0] in ("list", "str") else None
            if t[0] == "tuple" and isinstance(e.slice, ast.Constant) and isinstance(e.slice.value, int) and -len(t[1]) <= e.slice.value < len(t[1]):
                return t[1][e.slice.value]
            if t[0] == "map":
                return t[2]
            return _elem(t) if t[0] in ("list", "str") else None
        if isinstance(e, ast.BoolOp):
            out = "start"
            for v in e.values:
                if isinstance(v, (ast.List, ast.Tuple)) and not v.elts:
                    continue
                t = self.infer(v, depth + 1)
                if t is None:
                    return None
                out = t if out == "start" else union(out, t)
            return None if out == "start" else out
        if isinstance(e, ast.IfExp):
            a, b = self.infer(e.body, depth + 1), self.infer(e.orelse, depth + 1)
            if isinstance(e.orelse, ast.Constant) and e.orelse.value is None:
                return a
            if isinstance(e.body, ast.Constant) and e.body.value is None:
                return b
            return union(a, b)
        if isinstance(e, (ast.ListComp, ast.SetComp, ast.GeneratorExp)):
            t = self.narrowed(e.elt, self.infer(e.elt, depth + 1))
            return ("list", t) if t is not None else None
        if isinstance(e, (ast.List, ast.Tuple, ast.Set)) and e.elts:
            out = "start"
            for v in e.elts:
                t = self.infer(v, depth + 1)
                if t is None:
                    return None
                out = t if out == "start" else union(out, t)
            return ("list", out) if out not in (None, "start") else None
        if isinstance(e, ast.JoinedStr) or (isinstance(e, ast.Constant) and isinstance(e.value, str)):
            return ("str",)
        if isinstance(e, ast.Call):
            return self._call_type(e, depth + 1)
        return None

    def _call_type(self, e, depth):
        f = e.func
        if isinstance(f, ast.Name):
            if f.id in ("sorted", "list", "reversed", "tuple", "iter", "set", "frozenset", "deduplicate") and e.args:
                t = self.infer(e.args[0], depth)
                el = _elem(t)
                return ("list", el) if el is not None else None
            if f.id == "zip" and e.args:
                els = tuple(_elem(self.infer(a, depth)) for a in e.args)
                return ("list", ("tuple", els))
            if f.id == "enumerate" and e.args:
                return ("list", ("tuple", (None, _elem(self.infer(e.args[0], depth)))))
            if f.id == "cast" and len(e.args) == 2:
                return self.eng.parse_ann(e.args[0], self.fi.module)
            if f.id in ("next",) and e.args:
                return _elem(self.infer(e.args[0], depth))
            if f.id == "str":
                return ("str",)
        if isinstance(f, ast.Attribute) and f.attr in ("values", "keys", "items", "get", "pop", "copy") :
            t = self.infer(f.value, depth)
            if t is not None and t[0] == "map":
                if f.attr == "values":
                    return ("list", t[2]) if t[2] is not None else None
                if f.attr == "keys":
                    return ("list", t[1]) if t[1] is not None else None
                if f.attr == "items":
                    return ("list", ("tuple", (t[1], t[2])))
                if f.attr in ("get", "pop"):
                    return t[2]
                return t
            if t is not None and t[0] == "list" and f.attr in ("copy", "pop"):
                return t if f.attr == "copy" else t[1]
        # repo function with a return annotation
        res = self.prog.resolve_call(self.fi, e)
        if len(res) == 1 and not isinstance(res[0].node, ast.Lambda) and res[0].name != "__init__":
            callee = res[0]
            ret = callee.node.returns
            if ret is not None:
                t = self.eng.parse_ann(ret, callee.module)
                if t is not None:
                    return t
                # TypeVar element of a sequence parameter: f(lst: Sequence[T], ...) -> Optional[T]
                rn = ret.slice if isinstance(ret, ast.Subscript) and getattr(ret.value, "id", None) == "Optional" else ret
                if isinstance(rn, ast.Name):
                    ps = callee.node.args.posonlyargs + callee.node.args.args
                    off = 1 if callee.cls is not None else 0
                    for i, p in enumerate(ps[off:]):
                        pa = p.annotation
                        if isinstance(pa, ast.Subscript) and getattr(pa.value, "id", None) in LISTY and isinstance(pa.slice, ast.Name) \
                                and pa.slice.id == rn.id and i < len(e.args):
                            return _elem(self.infer(e.args[i], depth))
        return None

    def _binding_type(self, b, depth):
        kind = b[0]
        if kind == "ann":
            return self.eng.parse_ann(b[1], self.fi.module)
        if kind == "type":
            return b[1]
        if kind == "expr":
            return self.infer(b[1], depth)
        if kind == "elem":
            return _elem(self.infer(b[1], depth))
        if kind == "elem_unpack":
            t = _elem(self.infer(b[1], depth))
            if t is not None and t[0] == "tuple" and b[2] < len(t[1]):
                return t[1][b[2]]
            return None
        if kind == "unpack":
            t = self.infer(b[1], depth)
            if t is not None and t[0] == "tuple" and b[2] < len(t[1]):
                return t[1][b[2]]
            return None
        if kind == "lambda":
            lam, idx = b[1], b[2]
            par = getattr(lam, "_parent", None)
            # key=lambda x: ... of sorted/min/max/filter/map/groupby over a typed iterable
            if isinstance(par, ast.keyword) and par.arg == "key" and isinstance(getattr(par, "_parent", None), ast.Call) and par._parent.args and idx == 0:
                return _elem(self.infer(par._parent.args[0], depth))
            if isinstance(par, ast.Call) and isinstance(par.func, ast.Name) and par.func.id in ("map", "filter") and len(par.args) >= 2 and par.args[0] is lam and idx == 0:
                return _elem(self.infer(par.args[1], depth))
            return None
        return None

    # ---- narrowing by isinstance on the same expression text
    def narrowed(self, expr, t):
        if t is None or t[0] != "node":
            return t
        text = ast.unparse(expr)
        cls = set(t[1])

        def named(test_args1):
            names = set()
            for n in ast.walk(test_args1):
                if isinstance(n, ast.Attribute) and isinstance(n.value, ast.Name) and n.value.id in ("_ast", "ast"):
                    names.add(n.attr)
                elif isinstance(n, ast.Name) and n.id[:1].isupper():
                    names.add(n.id)
            return self.eng.expand(names)

        class _T:
            """Normalised class test: .args[1] holds the class expression (isinstance / type(x) is K / x.__class__ is K / type(x) in (..))."""
            def __init__(self, cls_expr):
                self.args = [None, cls_expr]

        def is_test(tt):
            if isinstance(tt, ast.Call) and isinstance(tt.func, ast.Name) and tt.func.id == "isinstance" and len(tt.args) == 2 \
                    and ast.unparse(tt.args[0]) == text:
                return tt
            if isinstance(tt, ast.Compare) and len(tt.ops) == 1 and isinstance(tt.ops[0], (ast.Eq, ast.Is, ast.In)):
                l = tt.left
                if (isinstance(l, ast.Call) and isinstance(l.func, ast.Name) and l.func.id == "type" and len(l.args) == 1 and ast.unparse(l.args[0]) == text) \
                        or (isinstance(l, ast.Attribute) and l.attr == "__class__" and ast.unparse(l.value) == text):
                    return _T(tt.comparators[0])
            return None

        # a local bound once, in the function's own block, to a class test of never-reassigned names stands for that test
        # (`is_object = isinstance(value, ObjectValue)` ... `elif is_object:`)
        named_tests = getattr(self, "_named_tests", None)
        if named_tests is None and isinstance(self.fi.node, ast.Lambda):
            named_tests = self._named_tests = {}
        if named_tests is None:
            named_tests = self._named_tests = {}
            stores = {}
            for n in ast.walk(self.fi.node):
                if isinstance(n, ast.Name) and isinstance(n.ctx, ast.Store):
                    stores[n.id] = stores.get(n.id, 0) + 1
            for st in self.fi.node.body:
                if isinstance(st, ast.Assign) and len(st.targets) == 1 and isinstance(st.targets[0], ast.Name) and stores.get(st.targets[0].id) == 1 \
                        and not any(isinstance(x, ast.Name) and stores.get(x.id) for x in ast.walk(st.value)):
                    named_tests[st.targets[0].id] = st.value

        def unalias(tt):
            seen = 0
            while True:
                if isinstance(tt, ast.Name) and tt.id in named_tests and seen < 4:
                    tt = named_tests[tt.id]
                    seen += 1
                    continue
                return tt
        _is_test = is_test

        def is_test(tt):          # noqa: F811
            return _is_test(unalias(tt))

        cur = expr
        while getattr(cur, "_parent", None) is not None and cur is not self.fi.node:
            par = cur._parent
            if isinstance(par, (ast.If, ast.IfExp)) and cur is not par.test:
                body = par.body if isinstance(par.body, list) else [par.body]
                in_body = any(cur is b for b in body)
                t0 = unalias(par.test)
                neg = False
                if isinstance(t0, ast.UnaryOp) and isinstance(t0.op, ast.Not):
                    t0, neg = unalias(t0.operand), True
                tests = t0.values if isinstance(t0, ast.BoolOp) and isinstance(t0.op, ast.And) and not neg else [t0]
                for tt in tests:
                    tt = is_test(tt)
                    if tt:
                        nm = named(tt.args[1])
                        if nm:
                            if in_body != neg:
                                cls &= nm
                            elif len(tests) == 1:
                                cls -= nm
            if isinstance(par, ast.BoolOp) and isinstance(par.op, ast.And) and cur in par.values:
                for tt in par.values[:par.values.index(cur)]:
                    tt = is_test(tt)
                    if tt:
                        nm = named(tt.args[1])
                        if nm:
                            cls &= nm
            if isinstance(par, ast.comprehension) and cur is not par.iter:
                pass
            for field in ("body", "orelse", "finalbody"):
                blk = getattr(par, field, None)
                if isinstance(blk, list) and any(cur is b for b in blk):
                    for st in blk:
                        if st is cur:
                            break
                        if isinstance(st, ast.If) and not st.orelse and st.body and isinstance(st.body[-1], (ast.Return, ast.Raise, ast.Continue, ast.Break)):
                            t0 = unalias(st.test)
                            neg = False
                            if isinstance(t0, ast.UnaryOp) and isinstance(t0.op, ast.Not):
                                t0, neg = t0.operand, True
                            t1 = is_test(t0)
                            if t1:
                                nm = named(t1.args[1])
                                if nm:
                                    cls = (cls & nm) if neg else (cls - nm)
                        if isinstance(st, ast.Assert) and is_test(st.test):
                            nm = named(is_test(st.test).args[1])
                            if nm:
                                cls &= nm
            cur = par
        # comprehension filters: [x.a for x in xs if isinstance(x, K)]
        cur = expr
        while getattr(cur, "_parent", None) is not None and cur is not self.fi.node:
            par = cur._parent
            if isinstance(par, (ast.ListComp, ast.SetComp, ast.GeneratorExp, ast.DictComp)):
                for g in par.generators:
                    for i in g.ifs:
                        for tt in (i.values if isinstance(i, ast.BoolOp) and isinstance(i.op, ast.And) else [i]):
                            t1 = is_test(tt)
                            if t1 and not any(cur is x for x in ast.walk(i)):
                                nm = named(t1.args[1])
                                if nm:
                                    cls &= nm
            cur = par
        return ("node", frozenset(cls))

    def _guarded(self, node):
        cur = node
        while getattr(cur, "_parent", None) is not None and cur is not self.fi.node:
            par = cur._parent
            if isinstance(par, ast.Try) and any(cur is b for b in par.body):
                for h in par.handlers:
                    names = {"BaseException"} if h.type is None else {n.id for n in ast.walk(h.type) if isinstance(n, ast.Name)} | \
                        {n.attr for n in ast.walk(h.type) if isinstance(n, ast.Attribute)}
                    if names & {"AttributeError", "Exception", "BaseException"}:
                        return True
            if isinstance(par, ast.Call) and isinstance(par.func, ast.Name) and par.func.id in ("getattr", "hasattr"):
                return True
            cur = par
        return False

    def run(self):
        eng = self.eng
        want = None
        if not isinstance(self.fi.node, ast.Lambda) and getattr(self.fi.node, "returns", None) is not None:
            want = eng.parse_ann(self.fi.node.returns, self.fi.module)
            if want is not None and want[0] != "node":
                want = None
        for n in own_nodes(self.fi.node):
            if want is not None and isinstance(n, ast.Return) and n.value is not None:
                t = self.infer(n.value)
                if t is not None and t[0] == "node":
                    t = self.narrowed(n.value, t)
                    eng.reads += 1
                    extra = sorted(t[1] - want[1])
                    if extra:
                        eng.problems.append(("ret", self.fi, n, ast.unparse(self.fi.node.returns), extra))
            if isinstance(n, ast.Attribute) and isinstance(n.ctx, ast.Load):
                t = self.infer(n.value)
                if t is None or t[0] != "node":
                    continue
                t = self.narrowed(n.value, t)
                eng.reads += 1
                missing = sorted(c for c in t[1] if not eng.has_attr(c, n.attr))
                if missing and not self._guarded(n):
                    eng.problems.append(("attr", self.fi, n, n.attr, missing))
            elif isinstance(n, ast.Call) and isinstance(n.func, ast.Name) and n.func.id == "getattr" and len(n.args) == 3 \
                    and isinstance(n.args[1], ast.Constant) and isinstance(n.args[1].value, str):
                # getattr(node, "slot", default): for the node kinds without that slot the default stands in for the content
                t = self.infer(n.args[0])
                if t is None or t[0] != "node":
                    continue
                t = self.narrowed(n.args[0], t)
                eng.reads += 1
                missing = sorted(c for c in t[1] if not eng.has_attr(c, n.args[1].value))
                if missing:
                    eng.problems.append(("getattr-default", self.fi, n, n.args[1].value, missing))
            elif isinstance(n, ast.Call):
                # a str handed to a parameter annotated as a sequence of elements
                res = self.prog.resolve_call(self.fi, n)
                if len(res) != 1 or isinstance(res[0].node, ast.Lambda):
                    continue
                callee = res[0]
                ps = callee.node.args.posonlyargs + callee.node.args.args
                off = 1 if (callee.cls is not None and isinstance(n.func, ast.Attribute)) else 0
                for i, a in enumerate(n.args):
                    if i + off >= len(ps):
                        break
                    pa = ps[i + off].annotation
                    if isinstance(pa, ast.Subscript) and getattr(pa.value, "id", None) in LISTY - {"Iterable", "Iterator"}:
                        inner = pa.slice
                        if isinstance(inner, ast.Name) and inner.id == "str":
                            continue
                        t = self.infer(a)
                        eng.reads += 1
                        if t == ("str",):
                            eng.problems.append(("str-as-seq", self.fi, n, "%s(%s=%s)" % (callee.qualname, ps[i + off].arg, ast.unparse(a)), []))
