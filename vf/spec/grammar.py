"""Reference token-level grammar: GraphQL June 2018 + the extensions py-gql
documents (const directives on variable definitions, VARIABLE_DEFINITION
directive location, optional fragment variables), written by hand from the
specification as regular expressions over token atoms with four recursion
anchors (SelectionSet, Value[Const], Value, Type).  Trusted base of C01.G1.

Keywords are Name tokens with a given text; a String/BlockString token spelling
a keyword is *not* a keyword.
"""
from .. import rx

SS = ("parse_selection_set", ())
VAL_C = ("parse_value_literal", (True,))
VAL = ("parse_value_literal", (False,))
TYPE = ("parse_type_reference", ())

EXECUTABLE_LOCATIONS = ("QUERY", "MUTATION", "SUBSCRIPTION", "FIELD", "FRAGMENT_DEFINITION", "FRAGMENT_SPREAD",
                        "INLINE_FRAGMENT", "VARIABLE_DEFINITION")
TYPE_SYSTEM_LOCATIONS = ("SCHEMA", "SCALAR", "OBJECT", "FIELD_DEFINITION", "ARGUMENT_DEFINITION", "INTERFACE", "UNION",
                         "ENUM", "ENUM_VALUE", "INPUT_OBJECT", "INPUT_FIELD_DEFINITION")


class Reference:
    def __init__(self, g):
        self.g = g
        self.name_any = g.cls_atoms("Name")
        for k in ("on", "true", "false", "null", "query", "mutation", "subscription", "fragment", "schema", "scalar", "type",
                  "interface", "union", "enum", "input", "directive", "extend", "implements") + EXECUTABLE_LOCATIONS + TYPE_SYSTEM_LOCATIONS:
            if ("Name", k) not in g.atoms:
                raise KeyError("keyword %r is not an atom of the extracted alphabet (the parser never compares a token with it)" % k)

    # --- terminals
    def T(self, *classes):
        s = frozenset()
        for c in classes:
            s |= self.g.cls_atoms(c)
        return rx.sym(s)

    def KW(self, *words):
        return rx.sym(frozenset(("Name", w) for w in words))

    def NAME(self, but_not=()):
        return rx.sym(self.name_any - frozenset(("Name", w) for w in but_not))

    def NT(self, key):
        return rx.sym(frozenset([("NT",) + key]))

    # --- FIRST sets of the anchors (used to normalise look-ahead knowledge at anchor calls)
    def first(self):
        g = self.g
        strings = g.cls_atoms("String") | g.cls_atoms("BlockString")
        common = g.cls_atoms("BracketOpen") | g.cls_atoms("CurlyOpen") | g.cls_atoms("Integer") | g.cls_atoms("Float") | strings | self.name_any
        return {
            SS: g.cls_atoms("CurlyOpen"),
            VAL_C: common,
            VAL: common | g.cls_atoms("Dollar"),
            TYPE: g.cls_atoms("BracketOpen") | self.name_any,
        }

    # --- shared productions
    def arguments(self, const):
        v = self.NT(VAL_C if const else VAL)
        return rx.opt(rx.cat(self.T("ParenOpen"), rx.plus(rx.cat(self.NAME(), self.T("Colon"), v)), self.T("ParenClose")))

    def directives(self, const):
        return rx.star(rx.cat(self.T("At"), self.NAME(), self.arguments(const)))

    def directives1(self, const):
        return rx.plus(rx.cat(self.T("At"), self.NAME(), self.arguments(const)))

    def named_type(self):
        return self.NAME()

    def description(self):
        return rx.opt(self.T("String", "BlockString"))

    # --- anchors
    def type_reference(self):
        return rx.cat(rx.alt(self.NAME(), rx.cat(self.T("BracketOpen"), self.NT(TYPE), self.T("BracketClose"))), rx.opt(self.T("ExclamationMark")))

    def value(self, const):
        v = self.NT(VAL_C if const else VAL)
        alts = [
            rx.cat(self.T("BracketOpen"), rx.star(v), self.T("BracketClose")),
            rx.cat(self.T("CurlyOpen"), rx.star(rx.cat(self.NAME(), self.T("Colon"), v)), self.T("CurlyClose")),
            self.T("Integer"), self.T("Float"), self.T("String"), self.T("BlockString"),
            self.NAME(),   # true | false | null | EnumValue: every Name is a value
        ]
        if not const:
            alts.append(rx.cat(self.T("Dollar"), self.NAME()))
        return rx.alt(*alts)

    def selection_set(self):
        field = rx.cat(self.NAME(), rx.opt(rx.cat(self.T("Colon"), self.NAME())), self.arguments(False), self.directives(False), rx.opt(self.NT(SS)))
        spread = rx.cat(self.T("Ellip"), self.NAME(but_not=("on",)), self.directives(False))
        inline = rx.cat(self.T("Ellip"), rx.opt(rx.cat(self.KW("on"), self.named_type())), self.directives(False), self.NT(SS))
        return rx.cat(self.T("CurlyOpen"), rx.plus(rx.alt(field, spread, inline)), self.T("CurlyClose"))

    # --- executable definitions
    def variable_definitions(self):
        vd = rx.cat(self.T("Dollar"), self.NAME(), self.T("Colon"), self.NT(TYPE), rx.opt(rx.cat(self.T("Equals"), self.NT(VAL_C))), self.directives(True))
        return rx.opt(rx.cat(self.T("ParenOpen"), rx.plus(vd), self.T("ParenClose")))

    def operation_definition(self):
        full = rx.cat(self.KW("query", "mutation", "subscription"), rx.opt(self.NAME()), self.variable_definitions(), self.directives(False), self.NT(SS))
        return rx.alt(self.NT(SS), full)

    def fragment_definition(self, fragment_variables):
        return rx.cat(self.KW("fragment"), self.NAME(but_not=("on",)),
                      self.variable_definitions() if fragment_variables else rx.EPS,
                      self.KW("on"), self.named_type(), self.directives(False), self.NT(SS))

    # --- type system
    def operation_type_definitions(self):
        return rx.cat(self.T("CurlyOpen"), rx.plus(rx.cat(self.KW("query", "mutation", "subscription"), self.T("Colon"), self.named_type())), self.T("CurlyClose"))

    def input_value_definition(self):
        return rx.cat(self.description(), self.NAME(), self.T("Colon"), self.NT(TYPE), rx.opt(rx.cat(self.T("Equals"), self.NT(VAL_C))), self.directives(True))

    def arguments_definition(self):
        return rx.opt(rx.cat(self.T("ParenOpen"), rx.plus(self.input_value_definition()), self.T("ParenClose")))

    def fields_definition(self):
        fd = rx.cat(self.description(), self.NAME(), self.arguments_definition(), self.T("Colon"), self.NT(TYPE), self.directives(True))
        return rx.cat(self.T("CurlyOpen"), rx.plus(fd), self.T("CurlyClose"))

    def implements(self):
        return rx.cat(self.KW("implements"), rx.opt(self.T("Ampersand")), self.named_type(), rx.star(rx.cat(self.T("Ampersand"), self.named_type())))

    def union_members(self):
        return rx.cat(self.T("Equals"), rx.opt(self.T("Pipe")), self.named_type(), rx.star(rx.cat(self.T("Pipe"), self.named_type())))

    def enum_values(self):
        ev = rx.cat(self.description(), self.NAME(but_not=("true", "false", "null")), self.directives(True))
        return rx.cat(self.T("CurlyOpen"), rx.plus(ev), self.T("CurlyClose"))

    def input_fields(self):
        return rx.cat(self.T("CurlyOpen"), rx.plus(self.input_value_definition()), self.T("CurlyClose"))

    def directive_locations(self):
        loc = self.KW(*(EXECUTABLE_LOCATIONS + TYPE_SYSTEM_LOCATIONS))
        return rx.cat(rx.opt(self.T("Pipe")), loc, rx.star(rx.cat(self.T("Pipe"), loc)))

    def type_system_definition(self):
        d, D = self.description(), self.directives(True)
        return rx.alt(
            rx.cat(self.KW("schema"), D, self.operation_type_definitions()),
            rx.cat(d, self.KW("scalar"), self.NAME(), D),
            rx.cat(d, self.KW("type"), self.NAME(), rx.opt(self.implements()), D, rx.opt(self.fields_definition())),
            rx.cat(d, self.KW("interface"), self.NAME(), D, rx.opt(self.fields_definition())),
            rx.cat(d, self.KW("union"), self.NAME(), D, rx.opt(self.union_members())),
            rx.cat(d, self.KW("enum"), self.NAME(), D, rx.opt(self.enum_values())),
            rx.cat(d, self.KW("input"), self.NAME(), D, rx.opt(self.input_fields())),
            rx.cat(d, self.KW("directive"), self.T("At"), self.NAME(), self.arguments_definition(), self.KW("on"), self.directive_locations()),
        )

    def type_system_extension(self):
        D, D1 = self.directives(True), self.directives1(True)
        ext = self.KW("extend")

        def at_least_one(*parts):
            """ordered optional parts, at least one of them present"""
            alts = []
            for i, p in enumerate(parts):
                alts.append(rx.cat(p[1], *[rx.opt(q[1]) if not q[0] else q[1] for q in parts[i + 1:]]))
            return rx.alt(*alts)
        return rx.alt(
            rx.cat(ext, self.KW("schema"), rx.alt(rx.cat(D, self.operation_type_definitions()), D1)),
            rx.cat(ext, self.KW("scalar"), self.NAME(), D1),
            rx.cat(ext, self.KW("type"), self.NAME(), rx.alt(
                rx.cat(self.implements(), D, rx.opt(self.fields_definition())),
                rx.cat(D1, rx.opt(self.fields_definition())),
                self.fields_definition())),
            rx.cat(ext, self.KW("interface"), self.NAME(), rx.alt(rx.cat(D, self.fields_definition()), D1)),
            rx.cat(ext, self.KW("union"), self.NAME(), rx.alt(rx.cat(D, self.union_members()), D1)),
            rx.cat(ext, self.KW("enum"), self.NAME(), rx.alt(rx.cat(D, self.enum_values()), D1)),
            rx.cat(ext, self.KW("input"), self.NAME(), rx.alt(rx.cat(D, self.input_fields()), D1)),
        )

    # --- entry points
    def document(self, allow_type_system, fragment_variables):
        defs = [self.operation_definition(), self.fragment_definition(fragment_variables)]
        if allow_type_system:
            defs += [self.type_system_definition(), self.type_system_extension()]
        return rx.cat(self.T("SOF"), rx.plus(rx.alt(*defs)), self.T("EOF"))

    def standalone_value(self):
        return rx.cat(self.T("SOF"), self.NT(VAL), self.T("EOF"))

    def standalone_type(self):
        return rx.cat(self.T("SOF"), self.NT(TYPE), self.T("EOF"))
