"""Reference lexical grammar (GraphQL June 2018, section 2.1) for ONE call of the
lexer: ignored characters, then one token, as a regular expression over
character-class atoms, followed by a look-ahead symbol (constraint on the next,
unconsumed character, maximal munch and the documented restrictions after
numbers) and the class of the token.  Trusted base of C01.L2.
"""
import string

from .. import rx
from ..lexextract import EOFA

PUNCTUATORS = {"!": "ExclamationMark", "$": "Dollar", "(": "ParenOpen", ")": "ParenClose", "[": "BracketOpen", "]": "BracketClose",
               "{": "CurlyOpen", "}": "CurlyClose", ":": "Colon", "=": "Equals", "@": "At", "|": "Pipe", "&": "Ampersand"}
ESCAPED = '"\\/bfnrt'


class LexReference:
    def __init__(self, A):
        self.A = A
        self.letters = frozenset(string.ascii_letters) | {"_"}
        self.digits = frozenset("0123456789")
        self.word = self.letters | self.digits
        # SourceCharacter :: /[\u0009\u000A\u000D -￿]/ ; astral code points are accepted too (py-gql works on str)
        self.source_no_lt = A.where(lambda ch: ch == "\t" or ch >= " ") - {"\n", "\r"}
        self.any = A.all

    def S(self, atoms):
        return rx.sym(frozenset(atoms))

    def LA(self, atoms):
        return rx.sym(frozenset(("la", a) for a in atoms))

    def RET(self, cls):
        return rx.sym(frozenset([("ret", cls)]))

    def ignored(self):
        ws = self.S({"﻿", "\t", " ", "\n", "\r", ","})
        comment = rx.cat(self.S({"#"}), rx.star(self.S(self.source_no_lt)))
        # a comment extends to the next line terminator: inside the ignored run it must be followed by one
        unit = rx.alt(ws, rx.cat(comment, self.S({"\n", "\r"})))
        return rx.star(unit), comment

    def tokens(self):
        A = self.A
        alts = []
        for ch, cls in PUNCTUATORS.items():
            alts.append(rx.cat(self.S({ch}), self.LA(self.any), self.RET(cls)))
        alts.append(rx.cat(self.S({"."}), self.S({"."}), self.S({"."}), self.LA(self.any), self.RET("Ellip")))
        # Name :: /[_A-Za-z][_0-9A-Za-z]*/
        alts.append(rx.cat(self.S(self.letters), rx.star(self.S(self.word)), self.LA(self.any - self.word), self.RET("Name")))
        # numbers
        nz = self.digits - {"0"}
        D = self.S(self.digits)
        intpart = rx.cat(rx.opt(self.S({"-"})), rx.alt(self.S({"0"}), rx.cat(self.S(nz), rx.star(D))))
        frac = rx.cat(self.S({"."}), rx.plus(D))
        expo = rx.cat(self.S({"e", "E"}), rx.opt(self.S({"+", "-"})), rx.plus(D))
        la_int = self.any - self.digits - {"."} - self.letters
        la_float = self.any - self.digits - self.letters
        alts.append(rx.cat(intpart, self.LA(la_int), self.RET("Integer")))
        alts.append(rx.cat(intpart, frac, self.LA(la_float), self.RET("Float")))
        alts.append(rx.cat(intpart, rx.opt(frac), expo, self.LA(la_float), self.RET("Float")))
        # quoted strings
        q, bs = '"', "\\"
        plain = self.source_no_lt - {q, bs}
        hexd = frozenset("0123456789abcdefABCDEF")
        esc = rx.cat(self.S({bs}), rx.alt(self.S(set(ESCAPED)), rx.cat(self.S({"u"}), self.S(hexd), self.S(hexd), self.S(hexd), self.S(hexd))))
        sc = rx.alt(self.S(plain), esc)
        alts.append(rx.cat(self.S({q}), self.S({q}), self.LA(self.any - {q}), self.RET("String")))          # "" not followed by "
        alts.append(rx.cat(self.S({q}), sc, rx.star(sc), self.S({q}), self.LA(self.any), self.RET("String")))
        # block strings: explicit automaton for `"""` body `"""` with the \""" escape
        allowed = self.source_no_lt | {"\n", "\r"}
        O = allowed - {q, bs}
        Q, B = {q}, {bs}
        # states: 0 normal, 1 one quote, 2 two quotes, 3 after backslash, 4 backslash+quote, 5 backslash+2 quotes, 6 end
        trans = []
        for st in (0, 1, 2, 3, 4, 5):
            trans.append((st, O, 0))
            trans.append((st, B, 3))
        trans += [(0, Q, 1), (1, Q, 2), (2, Q, 6), (3, Q, 4), (4, Q, 5), (5, Q, 0)]
        body = ("auto", 7, 0, [6], trans)
        alts.append(rx.cat(self.S(Q), self.S(Q), self.S(Q), body, self.LA(self.any), self.RET("BlockString")))
        return rx.alt(*alts)

    def one_call(self):
        ign, comment = self.ignored()
        eof = rx.cat(self.LA({EOFA}), self.RET("EOF"))
        return rx.cat(ign, rx.alt(self.tokens(), eof, rx.cat(comment, eof)))
