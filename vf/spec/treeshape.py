"""Reference facts about the trees the June-2018 grammar (+ the documented extensions) can produce, written by hand from
the specification next to spec/grammar.py.  Trusted base of C03.G1: the printer is judged on the trees a parse can
yield, so the analysis needs to know which slot states exist (a selection set is never empty, `extend type T` carries
at least one of interfaces / directives / fields, ...).

Everything else about a node class (its slots, which are lists, which may be None, the child classes the parser stores
in them) is read from lang/ast.py and lang/parser.py on every run.
"""

# list slots that are never empty in a parsed tree (the production uses `+`, not `*` / `?`)
NONEMPTY = {
    ("SelectionSet", "selections"),
    ("Document", "definitions"),
    ("DirectiveDefinition", "locations"),
    ("SchemaDefinition", "operation_types"),
}

# extensions: the grammar requires at least one of these parts
AT_LEAST_ONE = {
    "SchemaExtension": ("directives", "operation_types"),
    "ScalarTypeExtension": ("directives",),
    "ObjectTypeExtension": ("interfaces", "directives", "fields"),
    "InterfaceTypeExtension": ("directives", "fields"),
    "UnionTypeExtension": ("directives", "types"),
    "EnumTypeExtension": ("directives", "values"),
    "InputObjectTypeExtension": ("directives", "fields"),
}

# child classes narrower than the annotations say (NonNullType never wraps a NonNullType)
CHILD_KINDS = {
    ("NonNullType", "type"): ("NamedType", "ListType"),
}

# string slots holding one of a few keywords
OPERATIONS = ("query", "mutation", "subscription")
ENUM_STR = {
    ("OperationDefinition", "operation"): OPERATIONS,
    ("OperationTypeDefinition", "operation"): OPERATIONS,
}

# string slots holding the text of one token of the given class
TOKEN_STR = {
    ("Name", "value"): "Name",
    ("IntValue", "value"): "Integer",
    ("FloatValue", "value"): "Float",
    ("EnumValue", "value"): "Name",
}

# Name children whose text is restricted to keywords (everything else is an arbitrary non-keyword name)
from .grammar import EXECUTABLE_LOCATIONS, TYPE_SYSTEM_LOCATIONS  # noqa: E402

NAME_VALUES = {
    ("DirectiveDefinition", "locations"): EXECUTABLE_LOCATIONS + TYPE_SYSTEM_LOCATIONS,
}

# slots holding arbitrary text (never a token by themselves): the content of a string literal
TEXT_STR = {("StringValue", "value")}

# the short form `{ ... }` of an operation exists only for an anonymous query without variables and directives; every
# other combination of slot states of OperationDefinition exists too
