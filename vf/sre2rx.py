"""Python regular expressions -> the rx regex algebra, over an alphabet of the 128 ASCII characters plus
four classes of non-ASCII characters (word/letter, digit, space, other), so that Unicode-aware escapes
(\\w, \\d, \\s, ., negated sets) show up as accepting non-ASCII input.  Negative look-aheads at the very start
of the pattern are returned separately (language difference is decided on the product automaton).
Semantics of `pattern.match(s)` followed by truthiness: anchored at the start, and `$` also matches before
one trailing newline (so "name\\n" passes a `...$` pattern) while `\\Z` does not.
"""
import re
import re._parser as sre
import re._constants as C

from . import rx

NA_WORD, NA_DIGIT, NA_SPACE, NA_OTHER = "NONASCII-LETTER", "NONASCII-DIGIT", "NONASCII-SPACE", "NONASCII-OTHER"
ASCII = [chr(i) for i in range(128)]
ALPHABET = frozenset(ASCII) | {NA_WORD, NA_DIGIT, NA_SPACE, NA_OTHER}
REP = {NA_WORD: "é", NA_DIGIT: "٣", NA_SPACE: " ", NA_OTHER: "→"}


class Unsupported(Exception):
    pass


def _category(cat, ascii_only):
    word = frozenset(c for c in ASCII if c.isalnum() or c == "_")
    digit = frozenset(c for c in ASCII if c.isdigit())
    space = frozenset(" \t\n\r\f\v")
    table = {
        C.CATEGORY_WORD: word | (frozenset() if ascii_only else {NA_WORD, NA_DIGIT}),
        C.CATEGORY_DIGIT: digit | (frozenset() if ascii_only else {NA_DIGIT}),
        C.CATEGORY_SPACE: space | (frozenset() if ascii_only else {NA_SPACE}),
    }
    neg = {C.CATEGORY_NOT_WORD: C.CATEGORY_WORD, C.CATEGORY_NOT_DIGIT: C.CATEGORY_DIGIT, C.CATEGORY_NOT_SPACE: C.CATEGORY_SPACE}
    if cat in table:
        return table[cat]
    if cat in neg:
        return ALPHABET - table[neg[cat]]
    raise Unsupported("category %s" % cat)


def _set(items, ascii_only):
    out, negate = set(), False
    for op, av in items:
        if op is C.NEGATE:
            negate = True
        elif op is C.LITERAL:
            out.add(chr(av) if av < 128 else NA_OTHER)
        elif op is C.RANGE:
            lo, hi = av
            for cp in range(lo, min(hi, 127) + 1):
                out.add(chr(cp))
            if hi > 127:
                out |= {NA_WORD, NA_DIGIT, NA_SPACE, NA_OTHER}
        elif op is C.CATEGORY:
            out |= _category(av, ascii_only)
        else:
            raise Unsupported("set item %s" % op)
    return frozenset(ALPHABET - out if negate else out)


def convert(pattern, flags=0):
    """-> (main rx, [negative look-ahead rx anchored at the start], notes)"""
    tree = sre.parse(pattern, flags)
    ascii_only = bool((flags | tree.state.flags) & re.ASCII)
    dotall = bool((flags | tree.state.flags) & re.DOTALL)
    negs, notes = [], []
    any_tail = rx.star(rx.sym(ALPHABET))

    def conv(items, at_start, top=False):
        parts = []
        for op, av in items:
            if op is C.AT:
                if av in (C.AT_BEGINNING, C.AT_BEGINNING_STRING):
                    if not at_start:
                        raise Unsupported("start anchor in the middle")
                elif av is C.AT_END:
                    parts.append(rx.opt(rx.sym(frozenset({"\n"}))))
                    notes.append("`$` also matches before a trailing newline")
                    parts.append(("end",))
                elif av is C.AT_END_STRING:
                    parts.append(("end",))
                else:
                    raise Unsupported("anchor %s" % av)
                continue
            if op is C.ASSERT_NOT and at_start and av[0] == 1:
                negs.append(rx.cat(conv(list(av[1]), False), any_tail))
                continue
            at_start = False
            if op is C.LITERAL:
                parts.append(rx.sym(frozenset({chr(av) if av < 128 else NA_OTHER})))
            elif op is C.NOT_LITERAL:
                parts.append(rx.sym(ALPHABET - {chr(av) if av < 128 else NA_OTHER}))
            elif op is C.ANY:
                parts.append(rx.sym(ALPHABET if dotall else ALPHABET - {"\n"}))
            elif op is C.IN:
                parts.append(rx.sym(_set(av, ascii_only)))
            elif op is C.CATEGORY:
                parts.append(rx.sym(_category(av, ascii_only)))
            elif op in (C.MAX_REPEAT, C.MIN_REPEAT):
                lo, hi, sub = av
                inner = conv(list(sub), False)
                seq = [inner] * lo
                if hi is C.MAXREPEAT:
                    seq.append(rx.star(inner))
                else:
                    if hi - lo > 16:
                        raise Unsupported("large bounded repeat")
                    seq.extend([rx.opt(inner)] * (hi - lo))
                parts.append(rx.cat(*seq) if seq else rx.EPS)
            elif op is C.SUBPATTERN:
                parts.append(conv(list(av[3]), False))
            elif op is C.BRANCH:
                parts.append(rx.alt(*[conv(list(b), False) for b in av[1]]))
            else:
                raise Unsupported("regex construct %s" % op)
        # `match()` does not require reaching the end unless anchored: text after the last item is free
        if top and not any(p == ("end",) for p in parts):
            parts.append(any_tail)
        return rx.cat(*[p for p in parts if p != ("end",)])

    return conv(list(tree), True, True), negs, notes


def differs(main, negs, ref):
    """Shortest word on which (main and not any neg) disagrees with ref, as (word, side) or None."""
    ns = [rx.NFA() for _ in range(2 + len(negs))]
    ends, start = [], []
    for n, r in zip(ns, [main] + list(negs) + [ref]):
        s, e = n.build(r)
        ends.append(e)
        start.append(n.closure([s]))
    start = tuple(start)
    seen = {start: None}
    queue = [start]

    def acc(st):
        impl = ends[0] in st[0] and not any(ends[1 + i] in st[1 + i] for i in range(len(negs)))
        return impl, ends[-1] in st[-1]
    while queue:
        nxt = []
        for st in queue:
            a, b = acc(st)
            if a != b:
                w, cur = [], st
                while seen[cur] is not None:
                    prev, atom = seen[cur]
                    w.append(atom)
                    cur = prev
                return list(reversed(w)), ("impl-only" if a else "ref-only")
            for atom in sorted(ALPHABET, key=lambda x: (len(x), x)):
                nst = []
                for n, states in zip(ns, st):
                    tgt = set()
                    for x in states:
                        for atoms, _p, t in n.tr[x]:
                            if atom in atoms:
                                tgt.add(t)
                    nst.append(n.closure(tgt))
                nst = tuple(nst)
                if nst not in seen:
                    seen[nst] = (st, atom)
                    nxt.append(nst)
        queue = nxt
    return None


def show(word):
    return "".join(REP.get(a, a) for a in word)
