"""Shared rule: typed attribute reads on AST-node expressions (see slottypes)."""
import ast

from . import nodeshape, slottypes

TEXT = ("annotation-driven typing of AST-node expressions in %s (parameter annotations, `# type:` comments, constructor slot "
        "annotations, loops, zip/sorted/comprehensions, lambdas, isinstance/type() narrowing): every attribute read on an "
        "expression typed as a set of node classes exists on every class of the set (a `getattr(node, \"slot\", default)` included: "
        "the default must not stand in for a kind without that slot), a node-typed function returns only node kinds of "
        "its declared return type, and a str is never handed to a parameter annotated as a sequence of elements — %s")


def run_rule(prog, run, rid, scope_text, consequence, prefixes, floor, seed=None):
    r = run.rule(rid, TEXT % (scope_text, consequence), floor)
    ncs = nodeshape.node_classes(prog)
    eng = slottypes.Engine(prog, ncs, nodeshape.abstract_classes(prog))
    # positive control (the rule expects zero reports): the typing must know that Argument.value ranges over value
    # nodes some of which have no `.value`, i.e. `argument.value.value` would be reported
    t = eng.attr_type(("node", frozenset({"Argument"})), "value")
    lacking = sorted(c for c in (t[1] if t and t[0] == "node" else ()) if not eng.has_attr(c, "value"))
    if not lacking:
        from .model import AnalysisError
        raise AnalysisError("%s: control failed — slot typing no longer derives that Argument.value may be a node without .value (%r)" % (rid, t))
    r.instance("control: Argument.value may be %s, which lack .value" % "/".join(lacking))
    if seed:
        seed(eng)
    nfun = 0
    for f in prog.all_funcs():
        if not any(f.module.name == p or f.module.name.startswith(p + ".") for p in prefixes):
            continue
        nfun += 1
        eng.analyse(f)
    r.instance("%d functions, %d typed attribute reads / sequence arguments checked" % (nfun, eng.reads))
    r.instances += eng.reads
    seen = set()
    for kind, fi, node, what, missing in eng.problems:
        if kind == "attr" and isinstance(node.value, ast.Name):
            from . import pathfeas
            missing = [c for c in missing if pathfeas.evaluated_for(prog, fi, node, node.value.id, c) is not False]
            if not missing:
                continue
        if kind == "attr":
            key = "%s:%s:no-attribute(%s on %s)" % (fi.module.name, fi.qualname, ast.unparse(node), "|".join(missing))
            msg = "`%s` is typed as a node that may be %s, which has no attribute `%s`: AttributeError at run time" % (
                ast.unparse(node.value), " / ".join(missing), what)
        elif kind == "getattr-default":
            key = "%s:%s:getattr-default(%s on %s)" % (fi.module.name, fi.qualname, what, "|".join(missing))
            msg = ("`%s` reads the slot `%s` with a default from a node that may be %s, which has no such slot: for those kinds the "
                   "default stands in for the node's content, so two different nodes of that kind are treated as the same"
                   % (" ".join(ast.unparse(node).split())[:70], what, " / ".join(missing)))
        elif kind == "ret":
            key = "%s:%s:returns(%s)" % (fi.module.name, fi.qualname, "|".join(missing))
            msg = "`%s` may be a %s node but %s is declared to return %s: callers read attributes that node kind does not have" % (
                " ".join(ast.unparse(node).split())[:70], " / ".join(missing), fi.qualname, what)
        else:
            key = "%s:%s:str-as-sequence(%s)" % (fi.module.name, fi.qualname, what)
            msg = "a str (a name) is passed where a sequence of elements is expected in %s: indexing it yields single characters" % what
        if key in seen:
            continue
        seen.add(key)
        run.report(r, key, fi.where(node), msg)
    return eng
