"""User-supplied callables stored on schema objects, and where the library calls them.

A schema type keeps callables handed to its constructor (`resolve_type`, `resolver`, `default_resolver`, the `serialize` /
`parse` functions of a scalar, ...).  Calling one runs user code, which may raise anything - in particular the library's own
ResolverError, the documented way for user code to report a field error.  The may-raise engine only knows explicit raises;
this catalogue adds the call sites of those slots as implicit raisers of the classes a rule asks about.
The slots are read from the source on every run: attributes assigned in `__init__` of a class of schema/types.py from a
constructor parameter whose annotation mentions Callable / Resolver."""
import ast

from .model import own_nodes

TYPES = "py_gql.schema.types"


def slots(prog):
    out = {}
    mod = prog.module(TYPES)
    for c in prog.all_classes():
        if c.module is not mod:
            continue
        init = c.methods.get("__init__")
        if init is None:
            continue
        a = init.node.args
        ann = {p.arg: ast.unparse(p.annotation) for p in a.args + a.kwonlyargs if p.annotation is not None}
        callable_params = {p for p, t in ann.items() if "Callable" in t or "Resolver" in t}
        for n in own_nodes(init.node):
            if isinstance(n, ast.Assign) and len(n.targets) == 1 and isinstance(n.targets[0], ast.Attribute) \
                    and isinstance(n.targets[0].value, ast.Name) and n.targets[0].value.id == "self":
                if any(isinstance(x, ast.Name) and x.id in callable_params for x in ast.walk(n.value)):
                    out.setdefault(n.targets[0].attr, set()).add(c.name)
    return out


def is_user_call(prog, fi, call, _slots):
    if not (isinstance(call, ast.Call) and isinstance(call.func, ast.Attribute) and call.func.attr in _slots):
        return False
    recv = call.func.value
    sn = prog.self_name(fi)
    if isinstance(recv, ast.Name) and sn and recv.id == sn:
        cls = prog.enclosing_class(fi)
        if cls is not None and cls.find_method(call.func.attr) is not None:
            return False       # a method of the class itself, not the stored callable
    return True


def implicit(prog, classes):
    """implicit-raiser callback for excflow.MayRaise: a call of a user-callable slot may raise each of ``classes``"""
    sl = slots(prog)

    def cb(fi, node):
        if is_user_call(prog, fi, node, sl):
            return list(classes)
        return ()
    cb.slots = sl
    return cb
