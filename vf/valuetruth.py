"""Values are tested for None, not for truthiness.

In the coercion and completion code a *value* (a parameter annotated Any / _ScalarValue, or a name containing `value`)
may legitimately be 0, False, "", [] or {}.  Testing it with `if x` / `not x` treats those as missing or null.  The only
truth tests allowed are under an isinstance() narrowing of the same name to str/bytes/list (emptiness of that kind).
"""
import ast

from .model import own_nodes
from .props.c03 import _truth_operands


def check(prog, run, rule_id, prefixes, floor):
    r = run.rule(rule_id, "in %s no value (parameter annotated Any/_ScalarValue, or variable whose name contains `value`) is tested for "
                          "truthiness — `x is None` / `x is not None` only — except under an isinstance narrowing of the same name: a "
                          "falsy non-null value (0, false, \"\", [], {}) must be delivered or completed like any other"
                          % ", ".join(p + "/**" for p in prefixes), floor)
    for f in prog.all_funcs():
        if not any(f.module.name == p or f.module.name.startswith(p + ".") for p in prefixes):
            continue
        a = f.node.args
        anyp = {x.arg for x in a.posonlyargs + a.args + a.kwonlyargs
                if x.annotation is not None and ast.unparse(x.annotation) in ("Any", "Optional[Any]", "_ScalarValue")}
        ops = _truth_operands(f.node)
        # a local bound (only) to the outcome of a test - a comparison, a not / and / or of tests, an isinstance() - is a
        # boolean whatever it is called (`value_is_null = resolved_value is None`)
        flags, other = set(), set()
        for n in own_nodes(f.node):
            tg = n.targets if isinstance(n, ast.Assign) else [n.target] if isinstance(n, (ast.AnnAssign, ast.AugAssign)) else []
            for t in tg:
                for nm in [x.id for x in ast.walk(t) if isinstance(x, ast.Name)]:
                    v = getattr(n, "value", None)
                    is_test = isinstance(n, ast.Assign) and isinstance(t, ast.Name) and (
                        isinstance(v, ast.Compare) or (isinstance(v, ast.UnaryOp) and isinstance(v.op, ast.Not))
                        or (isinstance(v, ast.Constant) and isinstance(v.value, bool))
                        or (isinstance(v, ast.Call) and isinstance(v.func, ast.Name) and v.func.id in ("isinstance", "bool", "callable", "issubclass")))
                    (flags if is_test else other).add(nm)
        flags -= other
        r.instance("%s: %d truth tests" % (f.qualname, len(ops)), nontrivial=False)
        for o in ops:
            if not (isinstance(o, ast.Name) and (o.id in anyp or "value" in o.id.lower())) or o.id in flags:
                continue
            narrowed = False
            cur = o
            while getattr(cur, "_parent", None) is not None and cur is not f.node:
                par = cur._parent
                if isinstance(par, ast.If) and cur is not par.test:
                    for c in ast.walk(par.test):
                        if isinstance(c, ast.Call) and isinstance(c.func, ast.Name) and c.func.id == "isinstance" and c.args \
                                and isinstance(c.args[0], ast.Name) and c.args[0].id == o.id:
                            narrowed = True
                if isinstance(par, ast.BoolOp) and isinstance(par.op, ast.And):
                    for c in par.values:
                        if isinstance(c, ast.Call) and isinstance(c.func, ast.Name) and c.func.id == "isinstance" and c.args \
                                and isinstance(c.args[0], ast.Name) and c.args[0].id == o.id:
                            narrowed = True
                cur = par
            r.instance("%s: truth test on `%s` (narrowed: %s)" % (f.qualname, o.id, narrowed))
            if not narrowed:
                run.report(r, "%s:%s:truthiness-of-value(%s)" % (f.module.name, f.qualname, o.id), f.where(o),
                           "`%s` is tested for truthiness in `%s`: a falsy non-null value (0, false, \"\", [], {}) is handled like null / "
                           "missing" % (o.id, " ".join(ast.unparse(getattr(o, "_parent", o)).split())[:70]))
