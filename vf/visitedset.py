"""Visited-set scope rule.

Idiom: a function F takes a set parameter S and a key K and starts with
``if K in S: return`` ... ``S.add(K)``: work for K is skipped when S already
holds K.  The skip is sound only when everything else the skipped work depends
on (F's other parameters) is the same for every call that shares the same S.
For every call site of F in the analysed modules, the argument bound to S must be

* a fresh ``set()`` expression, or
* F's own S forwarded in a recursive call whose other arguments (except K) are
  F's own parameters unchanged, or
* a local of the caller bound exactly once to ``set()``, where all calls using
  that local pass textually identical other arguments, none of which is
  re-bound inside a loop that contains the call but not the ``set()`` binding.

Anything else (an attribute of a longer-lived object, a parameter of unknown
provenance shared across different other-arguments) lets one computation's
"done" marks suppress a different computation.
"""
import ast

from .model import own_nodes, norm_stmt


def find_idioms(funcs):
    """-> list of (FuncInfo, S param, K names) for functions using the skip idiom on a parameter."""
    out = []
    for f in funcs:
        a = f.node.args
        params = [x.arg for x in a.posonlyargs + a.args + a.kwonlyargs]
        for st in f.node.body:
            if isinstance(st, ast.If) and isinstance(st.test, ast.Compare) and len(st.test.ops) == 1 and isinstance(st.test.ops[0], ast.In) \
                    and isinstance(st.test.comparators[0], ast.Name) and st.test.comparators[0].id in params \
                    and st.body and isinstance(st.body[-1], ast.Return) and len(st.body) == 1:
                S = st.test.comparators[0].id
                keys = sorted({n.id for n in ast.walk(st.test.left) if isinstance(n, ast.Name) and n.id in params})
                adds = [n for n in own_nodes(f.node) if isinstance(n, ast.Call) and isinstance(n.func, ast.Attribute) and n.func.attr == "add"
                        and isinstance(n.func.value, ast.Name) and n.func.value.id == S]
                if adds and keys:
                    out.append((f, S, keys))
    return out


def _is_fresh_set(e):
    return (isinstance(e, ast.Call) and isinstance(e.func, ast.Name) and e.func.id in ("set",) and not e.args) or \
        (isinstance(e, ast.Set) and not e.elts)


def _bind_args(callee, call, bound_method):
    a = callee.node.args
    params = [x.arg for x in a.posonlyargs + a.args]
    off = 1 if bound_method else 0
    out = {}
    for i, v in enumerate(call.args):
        if i + off < len(params):
            out[params[i + off]] = v
    for k in call.keywords:
        if k.arg:
            out[k.arg] = k.value
    return out


def check_sites(prog, funcs, idioms):
    """-> (sites, problems).  sites: list of text; problems: list of (caller FuncInfo, call node, key, message)."""
    sites, problems = [], []
    by_node = {id(f.node): f for f in funcs}
    for F, S, keys in idioms:
        a = F.node.args
        others = [x.arg for x in a.posonlyargs + a.args + a.kwonlyargs if x.arg not in keys and x.arg != S and x.arg not in ("self", "cls")]
        per_local = {}
        for caller in funcs:
            for n in own_nodes(caller.node):
                if not isinstance(n, ast.Call):
                    continue
                if F not in prog.resolve_call(caller, n, dynamic=True):
                    continue
                b = _bind_args(F, n, bound_method=F.cls is not None and isinstance(n.func, ast.Attribute))
                sarg = b.get(S)
                where = "%s -> %s(%s=%s)" % (caller.qualname, F.qualname, S, norm_stmt(sarg) if sarg is not None else "<default>")
                sites.append(where)
                if sarg is None:
                    problems.append((caller, n, "%s:default" % F.qualname, "the visited set %s is left to its default" % S))
                    continue
                if _is_fresh_set(sarg):
                    continue
                if isinstance(sarg, ast.Name) and caller is F and sarg.id == S:
                    bad = [o for o in others if not (isinstance(b.get(o), ast.Name) and b[o].id == o)]
                    if bad:
                        problems.append((caller, n, "%s:recursion-changes(%s)" % (F.qualname, ",".join(bad)),
                                         "the recursive call forwards the visited set %s but changes %s: marks made for one value "
                                         "suppress the work for another" % (S, ", ".join(bad))))
                    continue
                if isinstance(sarg, ast.Name):
                    binds = [x for x in own_nodes(caller.node) if isinstance(x, (ast.Assign, ast.AnnAssign))
                             and any(isinstance(t, ast.Name) and t.id == sarg.id for t in (x.targets if isinstance(x, ast.Assign) else [x.target]))]
                    if len(binds) == 1 and binds[0].value is not None and _is_fresh_set(binds[0].value):
                        per_local.setdefault((id(caller.node), sarg.id), []).append((caller, n, b, binds[0]))
                        continue
                problems.append((caller, n, "%s:shared-set(%s)" % (F.qualname, norm_stmt(sarg)),
                                 "the visited set passed to %s is `%s`, which is not created for this computation: it outlives the "
                                 "values of %s it was filled for, so a fragment marked done for one of them is skipped for the others"
                                 % (F.qualname, norm_stmt(sarg), ", ".join(others) or "the other arguments")))
        for (_cid, local), uses in per_local.items():
            caller = uses[0][0]
            texts = {o: {norm_stmt(b[o]) if o in b else "<default>" for _c, _n, b, _bd in uses} for o in others}
            varying = sorted(o for o, t in texts.items() if len(t) > 1)
            if varying:
                problems.append((caller, uses[0][1], "%s:local-set-varying(%s)" % (F.qualname, ",".join(varying)),
                                 "calls sharing the local visited set `%s` pass different %s" % (local, ", ".join(varying))))
                continue
            bind = uses[0][3]
            for _c, n, b, _bd in uses:
                # loops that contain the call but not the binding
                cur = n
                while getattr(cur, "_parent", None) is not None and cur is not caller.node:
                    par = cur._parent
                    if isinstance(par, (ast.For, ast.AsyncFor, ast.While, ast.comprehension)):
                        contains_bind = any(x is bind for x in ast.walk(par))
                        if not contains_bind:
                            rebound = set()
                            if isinstance(par, (ast.For, ast.AsyncFor)):
                                rebound |= {t.id for t in ast.walk(par.target) if isinstance(t, ast.Name)}
                            for x in ast.walk(par):
                                if isinstance(x, ast.Name) and isinstance(x.ctx, ast.Store):
                                    rebound.add(x.id)
                            for o in others:
                                used = {t.id for t in ast.walk(b[o]) if isinstance(t, ast.Name)} if o in b else set()
                                if used & rebound:
                                    problems.append((caller, n, "%s:local-set-loop(%s)" % (F.qualname, o),
                                                     "the local visited set `%s` is created outside a loop that changes %s between the "
                                                     "calls sharing it" % (local, o)))
                    cur = par
    return sites, problems
